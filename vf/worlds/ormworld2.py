"""ormworld2 -- ORM worlds, fresh-database history replayer, raw table readers, driver-level fault injection.

Used by C30 C31 C32 C39 C47.

A *world* is a small declarative mapping built once per process and
configuration (``world(key)``), together with a plain-data ``Spec``
(``vf.models.sessref2``) that describes the same mapping to the reference
model (tables, columns, links, cascades) -- the model never looks at a
SQLAlchemy mapper.

    U1  Parent 1-n Child, bidirectional, cascade of Parent.children is a parameter
    U2  Item n-m Tag through ``secondary``, bidirectional
    U3  Node tree (self-referential, children/parent)
    U4  joined inheritance Person/Engineer/Manager + Company 1-n Person
    U5  natural primary key User(name) 1-n Address, ON UPDATE CASCADE, passive_updates on/off
    U7  one-to-one Parent.child (uselist=False)
    U8  two-table cycle Person.balls (1-n) / Person.favorite (n-1, post_update)

``Run`` replays an operation history on a *fresh* SQLite database (``:memory:``
or a file below a per-process directory in /dev/shm), a fresh ``Session`` and
a fresh universe of named objects.  Connections are sqlite3 connections in
``autocommit=False`` mode with ``PRAGMA foreign_keys=ON`` and a cursor class
that can be told to fail at the k-th statement (driver-level fault
injection, used by C32).
"""
from __future__ import annotations

import atexit
import os
import shutil
import sqlite3
import warnings

import sqlalchemy as sa
from sqlalchemy import event
from sqlalchemy import ForeignKey
from sqlalchemy import inspect as sa_inspect
from sqlalchemy import Integer
from sqlalchemy import String
from sqlalchemy import exc as sa_exc
from sqlalchemy.orm import DeclarativeBase
from sqlalchemy.orm import exc as orm_exc
from sqlalchemy.orm import mapped_column
from sqlalchemy.orm import relationship
from sqlalchemy.orm import Session
from sqlalchemy.orm import attributes as orm_attributes
from sqlalchemy.pool import NullPool
from sqlalchemy.pool import StaticPool
from sqlalchemy.schema import CreateTable

from ..models import sessref2 as ref

CASCADE_PRESETS = {
    "su": "save-update, merge",
    "all": "all",
    "allorph": "all, delete-orphan",
}

# ------------------------------------------------------------------ faults


class FaultPlan:
    """'the k-th statement of class c while armed raises exc' (c = 'dml': INSERT/UPDATE/DELETE, 'sel': anything
    else).  Positions are counted per class because the number of SELECTs a flush needs for expired objects depends
    on the iteration order of identity-hashed sets inside the unit of work, the DML statements do not.  Shared by
    every connection of one Run."""

    def __init__(self):
        self.armed = False
        self.counts = {"dml": 0, "sel": 0}
        self.at = None
        self.exc = None
        self.fired = False
        self.log = None
        self.after = None  # callback(dbapi_connection, sql, params) after every statement while armed (C31)

    @property
    def count(self):
        return self.counts["dml"] + self.counts["sel"]

    def arm(self, at=None, exc=None):
        self.armed = True
        self.counts = {"dml": 0, "sel": 0}
        self.at = at  # (class, k)
        self.exc = exc
        self.fired = False

    def disarm(self):
        self.armed = False

    def tick(self, sql):
        if self.log is not None:
            self.log.append(sql)
        if not self.armed:
            return
        c = "dml" if sql.lstrip()[:6].upper() in ("INSERT", "UPDATE", "DELETE") else "sel"
        self.counts[c] += 1
        if self.at is not None and not self.fired and self.at[0] == c and self.counts[c] == self.at[1]:
            self.fired = True
            raise self.exc("injected fault at %s statement %d" % self.at)


class _FCursor(sqlite3.Cursor):
    def execute(self, sql, params=()):
        plan = self.connection.plan
        if plan is not None:
            plan.tick(sql)
        r = super().execute(sql, params)
        if plan is not None and plan.after is not None and plan.armed:
            plan.after(self.connection, sql, params)
        return r

    def executemany(self, sql, params):
        plan = self.connection.plan
        if plan is not None:
            plan.tick(sql)
        params = list(params)
        r = super().executemany(sql, params)
        if plan is not None and plan.after is not None and plan.armed:
            plan.after(self.connection, sql, params)
        return r


class _FConn(sqlite3.Connection):
    plan = None

    def cursor(self, factory=_FCursor):
        return super().cursor(factory)


# ------------------------------------------------------------------ scratch dir

_DIR = None


def scratch_dir():
    global _DIR
    pid = os.getpid()
    if _DIR is None or _DIR[0] != pid:
        d = "/dev/shm/vf-%d-orm2" % pid
        os.makedirs(d, exist_ok=True)
        _DIR = (pid, d)
        atexit.register(_cleanup, pid, d)
    return _DIR[1]


def _cleanup(pid, d):
    if os.getpid() == pid:
        shutil.rmtree(d, ignore_errors=True)


# ------------------------------------------------------------------ worlds


class World:
    def __init__(self, key, base, classes, spec, universe, fk_deferred=False):
        self.key = key
        self.Base = base
        self.classes = classes  # cname -> class
        self.spec = spec  # ref.Spec
        self.universe = universe  # [(objname, cname, {attr: value})]
        self.metadata = base.metadata
        with warnings.catch_warnings():
            warnings.simplefilter("ignore")  # U8: the two tables refer to each other
            self.tables = list(base.metadata.sorted_tables)
        self.ddl = [str(CreateTable(t).compile(dialect=_dialect())) for t in self.tables]
        self.readers = []
        for t in self.tables:
            cols = [c.name for c in t.columns]
            self.readers.append((t.name, cols, "SELECT %s FROM %s" % (", ".join('"%s"' % c for c in cols), t.name)))
        self._engines = {}
        sa.orm.configure_mappers()

    # -- database
    def engine(self, mode):
        e = self._engines.get(mode)
        if e is None:
            if mode == "memory":
                e = sa.create_engine("sqlite://", creator=lambda: _connect(":memory:"), poolclass=StaticPool)
            else:
                path = os.path.join(scratch_dir(), "%s.db" % "".join(ch if ch.isalnum() else "_" for ch in repr(self.key)))
                e = sa.create_engine("sqlite://", creator=lambda: _connect(path), poolclass=NullPool)
                e._vf_path = path
            self._engines[mode] = e
        return e

    def fresh_db(self, mode, fk=True):
        """drop whatever database the engine pointed at and create an empty one"""
        e = self.engine(mode)
        e.dispose()
        if mode != "memory":
            os.makedirs(os.path.dirname(e._vf_path), exist_ok=True)
            for suffix in ("", "-journal", "-wal", "-shm"):
                try:
                    os.unlink(e._vf_path + suffix)
                except FileNotFoundError:
                    pass
            c = sqlite3.connect(e._vf_path, autocommit=True)
            for d in self.ddl:
                c.execute(d)
            c.close()
        else:
            with e.connect() as conn:
                raw = conn.connection.dbapi_connection
                for d in self.ddl:
                    sqlite3.Cursor.execute(raw.cursor(), d)
                raw.commit()
        return e

    def make_objects(self):
        out = {}
        for name, cname, kw in self.universe:
            out[name] = self.classes[cname](**kw)
        return out

    def make_one(self, name):
        for n, cname, kw in self.universe:
            if n == name:
                return self.classes[cname](**kw)
        raise KeyError(name)


_DIALECT = None


def _dialect():
    global _DIALECT
    if _DIALECT is None:
        from sqlalchemy.dialects import sqlite

        _DIALECT = sqlite.dialect()
    return _DIALECT


FK_ON = True


def _connect(path):
    c = sqlite3.connect(path, autocommit=True, factory=_FConn, timeout=0)
    if FK_ON:
        sqlite3.Cursor.execute(c.cursor(), "PRAGMA foreign_keys=ON")
    c.autocommit = False
    return c


def _repr(self):
    st = sa_inspect(self)
    d = st.dict
    pk = [d.get(k.key, "?") for k in st.mapper.primary_key]
    return "<%s %s>" % (type(self).__name__, ",".join(str(x) for x in pk))


_WORLDS = {}


def world(key):
    """key: tuple ('U1', cascade_string, ...)"""
    key = tuple(key)
    w = _WORLDS.get(key)
    if w is None:
        w = _BUILDERS[key[0]](*key[1:])
        w.key = key
        _WORLDS[key] = w
    return w


def _cset(s):
    """cascade string -> frozenset of canonical names (as CascadeOptions does)"""
    vals = {x.strip() for x in s.split(",") if x.strip()}
    if "all" in vals:
        vals.discard("all")
        vals |= {"save-update", "merge", "refresh-expire", "expunge", "delete"}
    if "none" in vals:
        vals.clear()
    return frozenset(vals)


M2O_DEFAULT = "save-update, merge"


def build_u1(cascade="save-update, merge", fk_nullable=True, twin=False, m2o_cascade=M2O_DEFAULT, sides="both", names=("Parent", "Child")):
    """sides: 'both' (bidirectional), 'o2m' (only Parent.children), 'm2o' (only Child.parent).
    names: class names of the two mapped classes (the unit of work breaks ties between otherwise unordered actions by
    mapper name, so C31 runs the world under both alphabetical orders)"""
    pn, cn = names

    class Base(DeclarativeBase):
        pass

    pd = dict(
        __tablename__="parent",
        id=mapped_column(Integer, primary_key=True, autoincrement=False),
        name=mapped_column(String, nullable=True),
        __repr__=_repr,
    )
    if sides != "m2o":
        pd["children"] = relationship(cn, back_populates="parent" if sides == "both" else None, cascade=cascade, order_by=cn + ".id")
    Parent = type(pn, (Base,), pd)
    cd = dict(
        __tablename__="child",
        id=mapped_column(Integer, primary_key=True, autoincrement=False),
        name=mapped_column(String, nullable=True),
        parent_id=mapped_column(ForeignKey("parent.id"), nullable=fk_nullable),
        __repr__=_repr,
    )
    if sides != "o2m":
        cd["parent"] = relationship(pn, back_populates="children" if sides == "both" else None, cascade=m2o_cascade)
    Child = type(cn, (Base,), cd)

    spec = ref.Spec(
        classes=[
            ref.Cls(pn, [ref.Tab("parent", "id", ["id", "name"])], pk="id", cols={"id": "id", "name": "name"}),
            ref.Cls(cn, [ref.Tab("child", "id", ["id", "name", "parent_id"])], pk="id", cols={"id": "id", "name": "name"}),
        ],
        links=[
            ref.Link("pc", holder=cn, fk="parent_id", table="child", target=pn, m2o="parent" if sides != "o2m" else None,
                     o2m="children" if sides != "m2o" else None,
                     uselist=True, c_o2m=_cset(cascade) if sides != "m2o" else frozenset(), c_m2o=_cset(m2o_cascade) if sides != "o2m" else frozenset(),
                     nullable=fk_nullable)
        ],
    )
    uni = [
        ("p1", pn, dict(id=1, name="p1")),
        ("p2", pn, dict(id=2, name="p2")),
        ("c1", cn, dict(id=1, name="c1")),
        ("c2", cn, dict(id=2, name="c2")),
    ]
    if twin:
        uni.append(("c1b", cn, dict(id=1, name="c1b")))
    return World(None, Base, {pn: Parent, cn: Child}, spec, uni)


def build_u7(cascade="save-update, merge"):
    class Base(DeclarativeBase):
        pass

    class Parent(Base):
        __tablename__ = "parent"
        id = mapped_column(Integer, primary_key=True, autoincrement=False)
        name = mapped_column(String, nullable=True)
        child = relationship("Child", back_populates="parent", cascade=cascade, uselist=False)
        __repr__ = _repr

    class Child(Base):
        __tablename__ = "child"
        id = mapped_column(Integer, primary_key=True, autoincrement=False)
        name = mapped_column(String, nullable=True)
        parent_id = mapped_column(ForeignKey("parent.id"), nullable=True)
        parent = relationship("Parent", back_populates="child")
        __repr__ = _repr

    spec = ref.Spec(
        classes=[
            ref.Cls("Parent", [ref.Tab("parent", "id", ["id", "name"])], pk="id", cols={"id": "id", "name": "name"}),
            ref.Cls("Child", [ref.Tab("child", "id", ["id", "name", "parent_id"])], pk="id", cols={"id": "id", "name": "name"}),
        ],
        links=[
            ref.Link("pc", holder="Child", fk="parent_id", table="child", target="Parent", m2o="parent", o2m="child",
                     uselist=False, c_o2m=_cset(cascade), c_m2o=_cset(M2O_DEFAULT), nullable=True)
        ],
    )
    uni = [
        ("p1", "Parent", dict(id=1, name="p1")),
        ("p2", "Parent", dict(id=2, name="p2")),
        ("c1", "Child", dict(id=1, name="c1")),
        ("c2", "Child", dict(id=2, name="c2")),
    ]
    return World(None, Base, dict(Parent=Parent, Child=Child), spec, uni)


def build_u3(cascade="save-update, merge", sides="both"):
    class Base(DeclarativeBase):
        pass

    class Node(Base):
        __tablename__ = "node"
        id = mapped_column(Integer, primary_key=True, autoincrement=False)
        name = mapped_column(String, nullable=True)
        parent_id = mapped_column(ForeignKey("node.id"), nullable=True)
        if sides != "m2o":
            children = relationship("Node", back_populates="parent" if sides == "both" else None, cascade=cascade, order_by="Node.id")
        if sides != "o2m":
            parent = relationship("Node", back_populates="children" if sides == "both" else None, remote_side=[id])
        __repr__ = _repr

    spec = ref.Spec(
        classes=[ref.Cls("Node", [ref.Tab("node", "id", ["id", "name", "parent_id"])], pk="id", cols={"id": "id", "name": "name"})],
        links=[
            ref.Link("tree", holder="Node", fk="parent_id", table="node", target="Node", m2o="parent" if sides != "o2m" else None,
                     o2m="children" if sides != "m2o" else None, uselist=True, c_o2m=_cset(cascade) if sides != "m2o" else frozenset(),
                     c_m2o=_cset(M2O_DEFAULT) if sides != "o2m" else frozenset(), nullable=True)
        ],
    )
    uni = [("n%d" % i, "Node", dict(id=i, name="n%d" % i)) for i in (1, 2, 3, 4)]
    return World(None, Base, dict(Node=Node), spec, uni)


def build_u2(cascade="save-update, merge", bidir=True):
    class Base(DeclarativeBase):
        pass

    item_tag = sa.Table(
        "item_tag",
        Base.metadata,
        sa.Column("item_id", ForeignKey("item.id"), primary_key=True),
        sa.Column("tag_id", ForeignKey("tag.id"), primary_key=True),
    )

    class Item(Base):
        __tablename__ = "item"
        id = mapped_column(Integer, primary_key=True, autoincrement=False)
        name = mapped_column(String, nullable=True)
        tags = relationship("Tag", secondary=item_tag, back_populates="items" if bidir else None, cascade=cascade, order_by="Tag.id")
        __repr__ = _repr

    class Tag(Base):
        __tablename__ = "tag"
        id = mapped_column(Integer, primary_key=True, autoincrement=False)
        name = mapped_column(String, nullable=True)
        if bidir:
            items = relationship("Item", secondary=item_tag, back_populates="tags", order_by="Item.id")
        __repr__ = _repr

    spec = ref.Spec(
        classes=[
            ref.Cls("Item", [ref.Tab("item", "id", ["id", "name"])], pk="id", cols={"id": "id", "name": "name"}),
            ref.Cls("Tag", [ref.Tab("tag", "id", ["id", "name"])], pk="id", cols={"id": "id", "name": "name"}),
        ],
        links=[],
        m2ms=[
            ref.M2M("it", left="Item", lkey="tags", right="Tag", rkey="items" if bidir else None, table="item_tag",
                    lcol="item_id", rcol="tag_id", c_l=_cset(cascade), c_r=_cset(M2O_DEFAULT))
        ],
    )
    uni = [
        ("i1", "Item", dict(id=1, name="i1")),
        ("i2", "Item", dict(id=2, name="i2")),
        ("t1", "Tag", dict(id=1, name="t1")),
        ("t2", "Tag", dict(id=2, name="t2")),
    ]
    return World(None, Base, dict(Item=Item, Tag=Tag), spec, uni)


def build_u4(cascade="save-update, merge"):
    class Base(DeclarativeBase):
        pass

    class Company(Base):
        __tablename__ = "company"
        id = mapped_column(Integer, primary_key=True, autoincrement=False)
        name = mapped_column(String, nullable=True)
        staff = relationship("Person", back_populates="company", cascade=cascade, order_by="Person.id")
        __repr__ = _repr

    class Person(Base):
        __tablename__ = "person"
        id = mapped_column(Integer, primary_key=True, autoincrement=False)
        name = mapped_column(String, nullable=True)
        type = mapped_column(String, nullable=False)
        company_id = mapped_column(ForeignKey("company.id"), nullable=True)
        company = relationship("Company", back_populates="staff")
        __mapper_args__ = {"polymorphic_on": "type", "polymorphic_identity": "person"}
        __repr__ = _repr

    class Engineer(Person):
        __tablename__ = "engineer"
        id = mapped_column(ForeignKey("person.id"), primary_key=True)
        lang = mapped_column(String, nullable=True)
        __mapper_args__ = {"polymorphic_identity": "engineer"}

    class Manager(Person):
        __tablename__ = "manager"
        id = mapped_column(ForeignKey("person.id"), primary_key=True)
        dept = mapped_column(String, nullable=True)
        __mapper_args__ = {"polymorphic_identity": "manager"}

    ptab = ref.Tab("person", "id", ["id", "name", "type", "company_id"])
    spec = ref.Spec(
        classes=[
            ref.Cls("Company", [ref.Tab("company", "id", ["id", "name"])], pk="id", cols={"id": "id", "name": "name"}),
            ref.Cls("Person", [ptab], pk="id", cols={"id": "id", "name": "name"}, fixed={"type": "person"}),
            ref.Cls("Engineer", [ptab, ref.Tab("engineer", "id", ["id", "lang"])], pk="id",
                    cols={"id": "id", "name": "name", "lang": "lang"}, fixed={"type": "engineer"}, base="Person"),
            ref.Cls("Manager", [ptab, ref.Tab("manager", "id", ["id", "dept"])], pk="id",
                    cols={"id": "id", "name": "name", "dept": "dept"}, fixed={"type": "manager"}, base="Person"),
        ],
        links=[
            ref.Link("cp", holder="Person", fk="company_id", table="person", target="Company", m2o="company", o2m="staff",
                     uselist=True, c_o2m=_cset(cascade), c_m2o=_cset(M2O_DEFAULT), nullable=True)
        ],
    )
    uni = [
        ("co1", "Company", dict(id=1, name="co1")),
        ("pe1", "Person", dict(id=1, name="pe1")),
        ("en2", "Engineer", dict(id=2, name="en2", lang="py")),
        ("ma3", "Manager", dict(id=3, name="ma3", dept="d")),
        ("en1", "Engineer", dict(id=1, name="en1", lang="c")),  # same identity as pe1: polymorphic key collision
    ]
    return World(None, Base, dict(Company=Company, Person=Person, Engineer=Engineer, Manager=Manager), spec, uni)


def build_u5(passive_updates=True, cascade="save-update, merge"):
    class Base(DeclarativeBase):
        pass

    class User(Base):
        __tablename__ = "user"
        name = mapped_column(String, primary_key=True)
        info = mapped_column(String, nullable=True)
        addresses = relationship("Address", back_populates="user", cascade=cascade, passive_updates=passive_updates, order_by="Address.email")
        __repr__ = _repr

    class Address(Base):
        __tablename__ = "address"
        email = mapped_column(String, primary_key=True)
        info = mapped_column(String, nullable=True)
        if passive_updates:
            user_name = mapped_column(ForeignKey("user.name", onupdate="CASCADE"), nullable=True)
        else:
            # no ON UPDATE CASCADE: the ORM moves the children itself; checked at COMMIT (deferred),
            # since with immediate checking the parent key cannot change while children refer to it
            user_name = mapped_column(ForeignKey("user.name", deferrable=True, initially="DEFERRED"), nullable=True)
        user = relationship("User", back_populates="addresses", passive_updates=passive_updates)
        __repr__ = _repr

    spec = ref.Spec(
        classes=[
            ref.Cls("User", [ref.Tab("user", "name", ["name", "info"])], pk="name", cols={"name": "name", "info": "info"}, pk_mutable=True),
            ref.Cls("Address", [ref.Tab("address", "email", ["email", "info", "user_name"])], pk="email",
                    cols={"email": "email", "info": "info"}, pk_mutable=True),
        ],
        links=[
            ref.Link("ua", holder="Address", fk="user_name", table="address", target="User", m2o="user", o2m="addresses",
                     uselist=True, c_o2m=_cset(cascade), c_m2o=_cset(M2O_DEFAULT), nullable=True,
                     passive_updates=passive_updates, deferred=not passive_updates)
        ],
    )
    uni = [
        ("u1", "User", dict(name="u1", info="x")),
        ("u2", "User", dict(name="u2", info="x")),
        ("a1", "Address", dict(email="a1", info="x")),
        ("a2", "Address", dict(email="a2", info="x")),
    ]
    return World(None, Base, dict(User=User, Address=Address), spec, uni)


def build_u8(cascade="save-update, merge"):
    class Base(DeclarativeBase):
        pass

    class Person(Base):
        __tablename__ = "person"
        id = mapped_column(Integer, primary_key=True, autoincrement=False)
        name = mapped_column(String, nullable=True)
        favorite_id = mapped_column(ForeignKey("ball.id", name="fk_fav"), nullable=True)
        balls = relationship("Ball", back_populates="owner", foreign_keys="Ball.owner_id", cascade=cascade, order_by="Ball.id")
        favorite = relationship("Ball", foreign_keys=[favorite_id], post_update=True)
        __repr__ = _repr

    class Ball(Base):
        __tablename__ = "ball"
        id = mapped_column(Integer, primary_key=True, autoincrement=False)
        name = mapped_column(String, nullable=True)
        owner_id = mapped_column(ForeignKey("person.id"), nullable=True)
        owner = relationship("Person", back_populates="balls", foreign_keys=[owner_id])
        __repr__ = _repr

    spec = ref.Spec(
        classes=[
            ref.Cls("Person", [ref.Tab("person", "id", ["id", "name", "favorite_id"])], pk="id", cols={"id": "id", "name": "name"}),
            ref.Cls("Ball", [ref.Tab("ball", "id", ["id", "name", "owner_id"])], pk="id", cols={"id": "id", "name": "name"}),
        ],
        links=[
            ref.Link("own", holder="Ball", fk="owner_id", table="ball", target="Person", m2o="owner", o2m="balls",
                     uselist=True, c_o2m=_cset(cascade), c_m2o=_cset(M2O_DEFAULT), nullable=True),
            ref.Link("fav", holder="Person", fk="favorite_id", table="person", target="Ball", m2o="favorite", o2m=None,
                     uselist=True, c_o2m=frozenset(), c_m2o=_cset(M2O_DEFAULT), nullable=True, post_update=True),
        ],
    )
    uni = [
        ("h1", "Person", dict(id=1, name="h1")),
        ("h2", "Person", dict(id=2, name="h2")),
        ("b1", "Ball", dict(id=1, name="b1")),
        ("b2", "Ball", dict(id=2, name="b2")),
    ]
    return World(None, Base, dict(Person=Person, Ball=Ball), spec, uni)


_BUILDERS = dict(U1=build_u1, U2=build_u2, U3=build_u3, U4=build_u4, U5=build_u5, U7=build_u7, U8=build_u8)


# ------------------------------------------------------------------ raw readers


def read_rows(dbapi_conn, w):
    """{table: sorted list of row tuples} through the raw driver (no ORM, no autoflush)"""
    out = {}
    cur = sqlite3.Connection.cursor(dbapi_conn)
    for tname, cols, sql in w.readers:
        sqlite3.Cursor.execute(cur, sql)
        out[tname] = sorted(cur.fetchall(), key=repr)
    cur.close()
    return out


def read_rows_session(session, w):
    """the current transaction's view, through the session's own connection"""
    conn = session.connection()
    return read_rows(conn.connection.dbapi_connection, w)


def read_rows_observer(w, mode="file"):
    """committed data as seen by an independent connection"""
    e = w.engine(mode)
    c = sqlite3.connect(e._vf_path, autocommit=True, timeout=0)
    try:
        return read_rows(c, w)
    finally:
        c.close()


# ------------------------------------------------------------------ replayer

SA_ERRORS = (sa_exc.SQLAlchemyError,)


class Run:
    """one replica: fresh database, fresh Session, fresh universe"""

    def __init__(self, w, mode="memory", autoflush=True, expire_on_commit=True, plan=None):
        self.w = w
        self.mode = mode
        self.engine = w.fresh_db(mode)
        self.plan = plan or FaultPlan()
        _FConn.plan = self.plan
        self.session = Session(self.engine, autoflush=autoflush, expire_on_commit=expire_on_commit)
        self.objs = w.make_objects()
        self.names = {id(o): n for n, o in self.objs.items()}
        self.warnings = []
        self.nmerge = 0
        self.nflush = 0
        event.listen(self.session, "after_flush", self._on_flush)

    def _on_flush(self, session, ctx):
        self.nflush += 1

    def touch(self, start):
        """load every relationship reachable from `start` (cascades of kind expunge / refresh-expire only follow what
        is loaded; the properties speak about the configured graph)"""
        spec = self.w.spec
        seen, todo = set(), [start]
        while todo:
            inst = todo.pop()
            if id(inst) in seen:
                continue
            seen.add(id(inst))
            for key, uselist in spec.rels_of(type(inst).__name__):
                try:
                    v = getattr(inst, key)
                except orm_exc.DetachedInstanceError:
                    continue
                if uselist:
                    todo += list(v)
                elif v is not None:
                    todo.append(v)

    # -- helpers
    def name_of(self, o):
        if o is None:
            return None
        n = self.names.get(id(o))
        if n is not None and self.objs.get(n) is o:
            return n
        st = sa_inspect(o)
        return "~%s:%s" % (type(o).__name__, ",".join(str(st.dict.get(k.key, "?")) for k in st.mapper.primary_key))

    def register(self, name, o):
        self.objs[name] = o
        self.names[id(o)] = name

    def close(self):
        try:
            self.session.close()
        except Exception:
            pass
        _FConn.plan = None
        if self.mode != "memory":
            # pool workers leave through os._exit (no atexit): remove the scratch database with the replica
            self.engine.dispose()
            for suffix in ("", "-journal", "-wal", "-shm"):
                try:
                    os.unlink(self.engine._vf_path + suffix)
                except OSError:
                    pass
            try:
                os.rmdir(os.path.dirname(self.engine._vf_path))
            except OSError:
                pass

    # -- ops
    def apply(self, op):
        """-> ('ok', value) | ('exc', exception).  Warnings are captured."""
        with warnings.catch_warnings(record=True) as wl:
            warnings.simplefilter("always")
            try:
                v = self._apply(op)
                out = ("ok", v)
            except Exception as e:  # noqa
                out = ("exc", e)
        for x in wl:
            self.warnings.append(str(x.message))
        return out

    def _apply(self, op):
        s, o = self.session, self.objs
        k = op[0]
        if k == "add":
            return s.add(o[op[1]])
        if k == "delete":
            return s.delete(o[op[1]])
        if k == "expunge":
            if s.autoflush:
                self.touch(o[op[1]])
            return s.expunge(o[op[1]])
        if k == "set":
            return setattr(o[op[1]], op[2], op[3])
        if k == "setrel":
            return setattr(o[op[1]], op[2], o[op[3]] if op[3] is not None else None)
        if k == "append":
            return getattr(o[op[1]], op[2]).append(o[op[3]])
        if k == "remove":
            return getattr(o[op[1]], op[2]).remove(o[op[3]])
        if k == "replace":
            return setattr(o[op[1]], op[2], [o[n] for n in op[3]])
        if k == "flush":
            return s.flush()
        if k == "commit":
            s.commit()
            self.plan.disarm()  # a fault plan covers the commit itself, not the reads that follow
            HOOKS.disarm()
            if not s.autoflush:
                # without autoflush a lazy load that happens while changes are pending shows stale rows (documented
                # caveat of autoflush=False); these replicas therefore read their objects right after the commit, so
                # every collection is in memory and kept current by the backref events
                for n in sorted(o):
                    if o[n] in s:
                        self.touch(o[n])
            return None
        if k == "rollback":
            return s.rollback()
        if k == "expire":
            return s.expire(o[op[1]])
        if k == "refresh":
            return s.refresh(o[op[1]])
        if k == "expire_all":
            return s.expire_all()
        if k == "merge":
            return self._merge(op)
        raise AssertionError(op)

    def merge_source(self, op):
        """('merge', x, variant[, extra]) -> detached-looking transient source graph built from the universe spec.
        variant 'plain': only columns (name changed to 'mg'); 'rel': additionally the collection / scalar given in op[3]
        as list of names (copies with name 'mg')."""
        _, x, variant = op[:3]
        src = self.w.make_one(x)
        spec = self.w.spec
        c = spec.cls_of_obj(self.w, x)
        dcol = spec.data_col(c)
        setattr(src, dcol, "mg")
        made = {x: src}
        if variant == "rel":
            key, targets = op[3], op[4]
            vals = []
            for t in targets:
                cp = self.w.make_one(t)
                setattr(cp, spec.data_col(spec.cls_of_obj(self.w, t)), "mg")
                made[t] = cp
                vals.append(cp)
            if spec.rel_uselist(c, key):
                setattr(src, key, vals)
            else:
                setattr(src, key, vals[0] if vals else None)
        return src, made

    def _merge(self, op):
        src, made = self.merge_source(op)
        before = {id(x) for x in self.session}
        res = self.session.merge(src)
        # name every new instance that entered the session through this merge: "mg:<Class>:<pk>"
        for inst in list(self.session.new):
            if id(inst) not in self.names and id(inst) not in before:
                st = sa_inspect(inst)
                pk = ",".join(str(st.dict.get(k.key, "?")) for k in st.mapper.primary_key)
                name = "mg:%s:%s" % (type(inst).__name__, pk)
                i = 1
                while name in self.objs:
                    i += 1
                    name = "mg:%s:%s#%d" % (type(inst).__name__, pk, i)
                self.register(name, inst)
        return self.name_of(res)

    # -- observations
    def life(self, name):
        st = sa_inspect(self.objs[name])
        if st.transient:
            return "T"
        if st.pending:
            return "P"
        if st.deleted:
            return "X"
        if st.persistent:
            return "S"
        if st.detached:
            return "D"
        return "?"

    def in_session(self, name):
        return self.objs[name] in self.session

    def rows(self):
        return read_rows_session(self.session, self.w)

    def rows_committed(self):
        if self.mode == "memory":
            raise AssertionError("observer needs a file database")
        return read_rows_observer(self.w)

    def object_graph(self, session=None, names=None):
        """snapshot by identity of every object in `session` (default: own), through plain attribute access
        (may load; caller decides about autoflush).  {(cname, pk): {col: v, rel: identity|sorted identities}}"""
        s = session or self.session
        out = {}
        spec = self.w.spec
        for inst in list(s.identity_map.values()):
            out[_ident(inst)] = _snap(inst, spec)
        return out

    def fresh_graph(self):
        """load everything in a brand-new Session on the same database"""
        spec = self.w.spec
        out = {}
        with warnings.catch_warnings(record=True) as wl, Session(self.engine) as fs:
            warnings.simplefilter("always")
            for cname, cls in self.w.classes.items():
                if spec.cls[cname].base is not None:
                    continue
                for inst in fs.scalars(sa.select(cls)).all():
                    out[_ident(inst)] = _snap(inst, spec)
            fs.rollback()
        self.warnings += [str(x.message) for x in wl]
        return out

    def canon(self):
        """implementation-visible state for dedupe, without triggering loads or flushes"""
        s = self.session
        out = []
        for name in sorted(self.objs):
            inst = self.objs[name]
            st = orm_attributes.instance_state(inst)
            d = st.dict
            vals = []
            for k in sorted(d):
                if k.startswith("_sa_"):
                    continue
                vals.append((k, self._cv(d[k])))
            com = []
            for k in sorted(st.committed_state):
                com.append((k, self._cv(st.committed_state[k])))
            pend = []
            pm = st.__dict__.get("_pending_mutations")
            if pm:
                for k in sorted(pm):
                    pc = pm[k]
                    pend.append((k, [self._cv(x) for x in pc.added_items], [self._cv(x) for x in pc.deleted_items.values()] if hasattr(pc.deleted_items, "values") else [self._cv(x) for x in pc.deleted_items]))
            par = sorted(("F" if v is False else "P") for v in st.parents.values())
            out.append(
                (
                    name,
                    self.life(name),
                    inst in s.deleted if st.session_id == s.hash_key and st.key is not None and not st.deleted else False,
                    st.modified,
                    tuple(vals),
                    tuple(com),
                    tuple(sorted(st.expired_attributes)),
                    tuple(pend),
                    tuple(par),
                    st._orphaned_outside_of_session,
                    st.key[1] if st.key else None,
                )
            )
        return tuple(out)

    def _cv(self, v):
        if v is None or isinstance(v, (int, str, float, bool)):
            return v
        if isinstance(v, (list, tuple, set, frozenset)) or hasattr(v, "_sa_adapter"):
            return tuple(self._cv(x) for x in v)
        if hasattr(v, "_sa_instance_state"):
            return "@" + self.name_of(v)
        return repr(v)


def _ident(inst):
    st = sa_inspect(inst)
    m = st.mapper
    return (m.base_mapper.class_.__name__, tuple(st.dict.get(k.key) if k.key in st.dict else getattr(inst, k.key) for k in m.primary_key))


def _snap(inst, spec):
    cname = type(inst).__name__
    c = spec.cls[cname]
    d = {"__class__": cname}
    for attr in c.cols:
        d[attr] = getattr(inst, attr)
    for key, uselist in spec.rels_of(cname):
        v = getattr(inst, key)
        if uselist:
            d[key] = sorted((_ident(x) for x in v), key=repr)
        else:
            d[key] = _ident(v) if v is not None else None
    return d


# ------------------------------------------------------------------ lock-step with the reference model


def _fmt_op(op):
    return "%s(%s)" % (op[0], ", ".join(repr(x) if not isinstance(x, str) else x for x in op[1:]))


def fmt_hist(h):
    return "; ".join(_fmt_op(o) for o in h)


def model_for(w):
    return ref.Model(w.spec, w.universe)


def model_after(w, hist):
    """the reference model after a history (used by replay and for root prefixes); no checks"""
    m = model_for(w)
    for op in hist:
        m = model_step(m, op)[0]
        if m is None:
            return None
    return m


def model_step(m, op, quirks=frozenset(), af=True):
    """-> (model after op | None if the model predicts an error or leaves its domain, expectation dict | None)"""
    k = op[0]
    if k in ("flush", "commit"):
        exp = m.expect_flush(at_commit=(k == "commit"), af=af)
        if exp["must_error"]:
            return None, exp
        post = exp["outcomes"][0][1]
        if k == "commit":
            for t_, p_ in exp["outcomes"]:
                p_.after_commit()
        return post, exp
    m2 = m.copy()
    m2.quirks = frozenset(quirks)
    try:
        ref.apply_op(m2, op)
    except ref.ModelError as e:
        return None, dict(model_error=str(e))
    finally:
        m2.quirks = frozenset()
    return m2, None


def diff_rows(got, want):
    out = []
    for t in sorted(set(got) | set(want)):
        if got.get(t) != want.get(t):
            out.append("%s: db %r, model %r" % (t, got.get(t), want.get(t)))
    return "; ".join(out)


def diff_graph(a, b, la="a", lb="b"):
    out = []
    for k in sorted(set(a) | set(b), key=repr):
        if a.get(k) != b.get(k):
            out.append("%r: %s %r, %s %r" % (k, la, a.get(k), lb, b.get(k)))
    return "; ".join(out)


def model_along(w, hist, autoflush=True):
    """the model state the explorer carries after `hist` (same adoption of open outcomes / catalogued defects as the
    exploration itself): lock-step over every prefix"""
    ms = model_for(w)
    for i, op in enumerate(hist):
        ms, key, problems = lockstep(w, tuple(hist[:i]), ms, op, autoflush=autoflush)
        if ms is None:
            return None
    return ms


def lockstep(w, hist, ms, op, autoflush=True, expire_on_commit=True, mode="memory", run_out=None, before_rows=False):
    """Replay `hist` on a fresh replica, apply `op` to implementation and model, compare.

    -> (post_model | None, key | None, problems)  problems: list of (kind, signature_tail, detail).
    post_model None = stop exploring below (error outcome, domain left, or violation)."""
    run = Run(w, mode=mode, autoflush=autoflush, expire_on_commit=expire_on_commit)
    try:
        for h in hist:
            if run.apply(h)[0] == "exc":
                # this prefix went through when it was explored: the library's outcome depends on the iteration order of
                # identity-hashed sets (seen with the catalogued load-order dependent defects); not explored further
                return None, None, [("note:diverged", "replay of an explored history raised at %s" % _fmt_op(h), "")]
        run.rows_before = run.rows_after = None
        if before_rows:
            try:
                run.rows_before = run.rows()
            except SA_ERRORS:
                pass
        return _lockstep_op(run, ms, op, run_out)
    finally:
        if run_out is None:
            run.close()


def _lockstep_op(run, ms, op, run_out=None):
    w = run.w
    problems = []
    nfl = run.nflush
    out = run.apply(op)
    if run_out is not None:
        run_out.append(run)
    k = op[0]
    if k not in ("flush", "commit") and run.nflush > nfl:
        # an autoflush happened inside the operation (a lazy load preceded the mutation): "as if flush had been
        # called first"
        ms0 = ms
        exp0 = ms.expect_flush(af=True)
        if exp0["must_error"]:
            problems.append(("flush-accepted-invalid", "autoflush in %s succeeded although the final state violates %s" % (op[0], exp0["why"]), ""))
            return None, None, problems
        try:
            got = run.rows()
        except SA_ERRORS:
            got = None
        ms = exp0["outcomes"][0][1]
        for tag, alt in exp0["outcomes"]:
            if got is not None and alt.rows_as_lists() == got:
                ms = alt
                if tag:
                    ms.taint.add(tag)
                    problems.append(("known:" + tag, KNOWN_QUIRKS[tag], "autoflush in " + _fmt_op(op)))
                break
        for tag_, alt_ in exp0["outcomes"]:
            if tag_ and alt_ is not ms:
                ms.taint.add(tag_ + "?")
        if ms.dead or exp0["open"]:
            return None, None, problems
        if got is not None and ms.rows_as_lists() != got:
            if _f13_match(w, ms0, got, ms.rows_as_lists()):
                problems.append(("known:f13", KNOWN_QUIRKS["f13"], "autoflush in " + _fmt_op(op)))
                return None, None, problems
            problems.append(("rows", "database differs from the object graph after the autoflush in %s" % op[0], diff_rows(got, ms.rows_as_lists())))
            return None, None, problems
    if k == "expunge" and not run.session.autoflush and out[0] == "ok":
        lo, hi = ms.expunge_bounds(op[1])
        got_e = {n for n in ms.objs if n in run.objs and ms.objs[n].life in "PS" and run.life(n) in "TD"}
        if not (lo <= got_e <= hi):
            problems.append(("expunge-closure", "expunge(%s) detached %s, allowed between %s and %s" % (op[1], sorted(got_e), sorted(lo), sorted(hi)), ""))
            return None, None, problems
        post = ms.copy()
        post.expunge_exact(sorted(got_e))
        return post, (run.canon(), post.canon()), problems
    post, exp = model_step(ms, op, af=run.session.autoflush)
    if k in ("flush", "commit"):
        if out[0] == "exc":
            e = out[1]
            if not isinstance(e, SA_ERRORS):
                where = _sa_frame(e)
                if where is None:
                    raise e
                if exp["open"] or ms.taint or ms.stale:
                    return None, None, problems
                if isinstance(e, ValueError) and where.endswith("collections.py:remove"):
                    problems.append(("known:f12", KNOWN_QUIRKS["f12"], "%s raised %r" % (k, e)))
                    return None, None, problems
                problems.append(("crash", "%s crashed inside the library: %s in %s" % (k, type(e).__name__, where), repr(e)[:300]))
                return None, None, problems
            if ms.taint:
                pass  # consequence of a catalogued defect adopted earlier in this history
            elif exp.get("known_any"):
                problems.append(("known:" + exp["known_any"], KNOWN_QUIRKS[exp["known_any"]], "%s raised %r" % (k, e)))
            elif not exp["error"] and _f13_match(w, ms, {}, {}, only_exists=True):
                problems.append(("known:f13", KNOWN_QUIRKS["f13"], "%s raised %r" % (k, e)))
            elif not exp["error"] and exp.get("known_err"):
                problems.append(("known:" + exp["known_err"], KNOWN_QUIRKS[exp["known_err"]], "%s raised %r" % (k, e)))
            elif not exp["error"]:
                problems.append(("flush-raised", "%s raised %s although the final state satisfies every constraint" % (k, type(e).__name__), repr(e)[:500]))
            return None, None, problems
        if exp["must_error"]:
            problems.append(("flush-accepted-invalid", "%s succeeded although the final state violates %s" % (k, exp["why"]), str(run.rows() if k == "flush" else "")))
            return None, None, problems
        # rows
        if k == "flush":
            got = run.rows()
        else:
            with run.engine.connect() as c:
                got = read_rows(c.connection.dbapi_connection, w)
        run.rows_after = got
        want = post.rows_as_lists()
        if got != want or _life_problem(run, post):
            for tag, alt in exp["outcomes"][1:]:
                if alt.rows_as_lists() == got and not _life_problem(run, alt):
                    post = alt
                    want = got
                    if tag:
                        post.taint.add(tag)
                        problems.append(("known:" + tag, KNOWN_QUIRKS[tag], _fmt_op(op)))
                    break
        if got != want and exp.get("known_any"):
            problems.append(("known:" + exp["known_any"], KNOWN_QUIRKS[exp["known_any"]], diff_rows(got, want)))
            return None, None, problems
        for tag_, alt_ in exp["outcomes"]:
            if tag_ and alt_ is not post:
                # a load-order dependent defect was possible in this flush; the library may carry leftovers of it (e.g. a
                # cancelled delete) into the next flush of the transaction: later differences are not attributed
                post.taint.add(tag_ + "?")
        if got != want and exp["open"]:
            return None, None, problems
        if got != want and _f13_match(w, ms, got, want):
            problems.append(("known:f13", KNOWN_QUIRKS["f13"], diff_rows(got, want)))
            return None, None, problems
        if got != want and "f5" in ms.taint:
            problems.append(("known:f5", KNOWN_QUIRKS["f5"], diff_rows(got, want)))
            return None, None, problems
        if got != want and ms.taint:
            return None, None, problems  # memory and database already differ since an earlier catalogued defect (reported there)
        if got != want and _f5_match(w, got, want):
            problems.append(("known:f5", KNOWN_QUIRKS["f5"], diff_rows(got, want)))
            return None, None, problems
        if got != want:
            if exp["open"]:
                return None, None, problems
            problems.append(("rows", "database differs from the object graph after %s" % k, diff_rows(got, want)))
            return None, None, problems
        # lifecycle
        p = _life_problem(run, post)
        if p:
            problems.append(("life", "object states after %s" % k, p))
            return None, None, problems
        # loaded column attributes of persistent objects agree with their rows
        p = _attr_problem(run, post)
        if p and all(x[2] for x in p):
            problems.append(("known:f8", KNOWN_QUIRKS["f8"], "; ".join(x[0] for x in p)))
            return None, None, problems
        if p:
            p = "; ".join(x[0] for x in p)
            problems.append(("attrs", "in-memory column attribute differs from its row after %s" % k, p))
            return None, None, problems
        key = (run.canon(), post.canon())
        if k == "commit":
            fg = run.fresh_graph()
            mg = post.graph_from_rows()
            if fg != mg:
                problems.append(("fresh-graph", "graph loaded in a new session differs from the object graph after commit", diff_graph(fg, mg, "loaded", "model")))
                return None, None, problems
            if run.session.expire_on_commit:
                with warnings.catch_warnings(record=True) as wl:
                    warnings.simplefilter("always")
                    sg = run.object_graph()
                run.warnings += [str(x.message) for x in wl]
                sub = {k_: v for k_, v in fg.items() if k_ in sg}
                if sg != sub:
                    problems.append(("session-graph", "graph seen through the committing session differs from a new session", diff_graph(sg, sub, "session", "fresh")))
                    return None, None, problems
        if post.dead:
            return None, None, problems
        return post, key, problems
    # ---- non-flush op
    if out[0] == "exc":
        e = out[1]
        if post is None or any(kd.startswith("known:") for kd, _, _ in problems) or ms.taint:
            return None, None, problems  # model predicted an error too / consequence of a catalogued defect
        if isinstance(e, SA_ERRORS) and run.session.autoflush:
            # an autoflush inside the operation failed: acceptable iff a flush here may fail
            exp2 = ms.expect_flush(af=True)
            if exp2["error"]:
                return None, None, problems
            kq = exp2.get("known_any") or exp2.get("known_err") or ("f13" if _f13_match(w, ms, {}, {}, only_exists=True) else None)
            if kq:
                problems.append(("known:" + kq, KNOWN_QUIRKS[kq], "autoflush in %s raised %r" % (_fmt_op(op), e)))
                return None, None, problems
        if isinstance(e, ValueError) and (_sa_frame(e) or "").endswith("collections.py:remove") and run.nflush == nfl and k not in ("remove",):
            problems.append(("known:f12", KNOWN_QUIRKS["f12"], "%s raised %r" % (_fmt_op(op), e)))
            return None, None, problems
        if not isinstance(e, SA_ERRORS) and not isinstance(e, (ValueError,)):
            raise e
        problems.append(("op-raised", "%s raised %s" % (_fmt_op(op), type(e).__name__), repr(e)[:500]))
        return None, None, problems
    if post is None:
        return None, None, problems  # the model leaves its domain here (operation on a deleted / detached object)
    if k == "merge" and out[1] != post.last_merge:
        problems.append(("merge-target", "merge returned %s, documented target is %s" % (out[1], post.last_merge), ""))
        return None, None, problems
    p = _life_problem(run, post)
    if p and post.taint:
        t0 = sorted(post.taint)[0]
        if not t0.endswith("?"):
            problems.append(("known:" + t0, KNOWN_QUIRKS[t0], "%s: %s" % (_fmt_op(op), p)))
        return None, None, problems
    if p:
        for q in KNOWN_QUIRKS:
            postq, _ = model_step(ms, op, quirks=(q,))
            if postq is not None and not _life_problem(run, postq):
                # a catalogued defect explains the difference: report it under its canonical signature (only the
                # property that owns it does), adopt the implementation's behaviour and go on
                problems.append(("known:" + q, KNOWN_QUIRKS[q], "%s: %s" % (_fmt_op(op), p)))
                return postq, (run.canon(), postq.canon()), problems
        problems.append(("life", "object states after %s" % op[0], p))
        return None, None, problems
    return post, (run.canon(), post.canon()), problems


def _f13_match(w, ms, got, want, only_exists=False):
    """row switch: the differing rows are exactly rows whose key was given up by a deleted object and taken by a
    pending object of the same class in this flush, and they differ only in columns the model has as NULL"""
    spec = w.spec
    switched = {}
    for n, o in ms.objs.items():
        if o.life != "P":
            continue
        for d, od in ms.objs.items():
            if od.life == "S" and od.cls == o.cls and od.dbpk == ms.pk(n) and od.dbpk is not None:
                for t in spec.cls[o.cls].tabs:
                    switched.setdefault(t.name, set()).add(od.dbpk)
    if not switched:
        return False
    if only_exists:
        return True
    cols = {t: cs for t, cs, q in w.readers}
    pkcol = {t.name: t.pk for c in spec.cls.values() for t in c.tabs}
    for t in set(got) | set(want):
        if got.get(t) == want.get(t):
            continue
        if t not in switched or t not in pkcol:
            return False
        i = cols[t].index(pkcol[t])
        g = {r[i]: r for r in got[t]}
        wnt = {r[i]: r for r in want[t]}
        if set(g) != set(wnt):
            return False
        for k in g:
            if g[k] != wnt[k]:
                if k not in switched[t] or any(a != b and b is not None for a, b in zip(g[k], wnt[k])):
                    return False
    return True


def _sa_frame(e):
    """innermost traceback frame if it is inside sqlalchemy (a non-SQLAlchemy exception escaping from the library)"""
    tb = e.__traceback__
    last = None
    while tb is not None:
        last = tb
        tb = tb.tb_next
    if last is None:
        return None
    fn = last.tb_frame.f_code.co_filename
    if "/sqlalchemy/" in fn:
        return "%s:%s" % (fn.split("/sqlalchemy/")[-1], last.tb_frame.f_code.co_name)
    return None


def _f5_match(w, got, want):
    """one-to-one worlds: the only differences are foreign key values of the one-to-one link (a displaced child's
    many-to-one attribute is never cleared, so it keeps its key, and re-assigning it later is a no-op)"""
    links = [l for l in w.spec.links if l.o2m and not l.uselist]
    if not links:
        return False
    cols = {t: cs for t, cs, q in w.readers}
    for t in set(got) | set(want):
        if got.get(t) == want.get(t):
            continue
        ls = [l for l in links if l.table == t]
        if not ls or len(got[t]) != len(want[t]):
            return False
        i = cols[t].index(ls[0].fk)
        for a, b in zip(got[t], want[t]):
            if a != b and a[:i] + a[i + 1:] != b[:i] + b[i + 1:]:
                return False  # something else than the foreign key column differs
    return True


KNOWN_QUIRKS = {
    "f12": "ValueError 'list.remove(x): x not in list' escapes from flush: a removal queued for an unloaded collection (object that was only attached through the backref while transient, then moved on) is applied when the flush loads the collection",
    "f11": "self-referential relationship: a flush whose old and new parent links together form a loop raises CircularDependencyError (owned by C31)",
    "f13": "row switch: when an object is deleted and a new object with the same primary key is added in one flush, the row is UPDATEd with only the attributes set on the new object; every other column (e.g. the foreign key) keeps the deleted object's value",
    "f5": "one-to-one (uselist=False): when a child takes over a parent through child.parent = p, the displaced child's own many-to-one attribute is not cleared; if the parent's scalar has no net change in that flush the displaced row keeps its foreign key (two rows for one parent)",
    "f6": "delete-orphan: an orphan found only by the session-level check is deleted without its delete cascade (children keep referring to it)",
    "f7": "joined inheritance: a pending object that takes over the primary key of a deleted object of another subclass (row switch) is written as an UPDATE of the old row",
    "f8": "passive_updates=True: after a parent key change a loaded child whose parent collection is not loaded keeps the old foreign key value in memory",
    "f9": "passive_updates=False: a child de-associated or re-parented through the many-to-one side while expired still gets the renamed former parent's new key",
    "f1": "delete-orphan: a child de-associated through the many-to-one side while expired is not deleted at flush (orphan row stays)",
    "f3": "delete-orphan: a child re-associated through the many-to-one side while expired is deleted with its former parent (cascade follows the stale database collection)",
    "f2": "delete-orphan: a pending child moved from one in-session parent to another parent is expunged from the session",
}


def _life_problem(run, m):
    bad = []
    for n in sorted(run.objs):
        if n not in m.objs or n in m.fuzzy:
            continue
        a, b = run.life(n), m.objs[n].life
        if a != b and not (a == "D" and b == "X"):  # a deleted object that was expunged as well
            bad.append("%s: impl %s, model %s" % (n, a, b))
    return "; ".join(bad)


def _attr_problem(run, m):
    """'the database rows equal the state of the objects in the session': every column attribute that is loaded on a
    persistent named object equals the model's row (which was just compared with the database)"""
    spec = run.w.spec
    bad = []
    for n in sorted(run.objs):
        if n not in m.objs or m.objs[n].life != "S":
            continue
        inst = run.objs[n]
        d = orm_attributes.instance_dict(inst)
        o = m.objs[n]
        c = spec.cls[o.cls]
        row = {}
        for t in c.tabs:
            row.update(m.rows[t.name].get(o.dbpk, {}))
        for a, col in c.cols.items():
            if a in d and d[a] != row.get(col):
                bad.append(("%s.%s: memory %r, row %r" % (n, a, d[a], row.get(col)), n, False))
        for l in m.links_as_holder(o.cls):
            if l.fk in d and d[l.fk] != row.get(l.fk):
                # f8: the database cascaded a parent key change (ON UPDATE CASCADE) that the loaded child did not get
                f8 = bool(l.passive_updates and spec.cls[l.target].pk_mutable and row.get(l.fk) is not None and d[l.fk] is not None)
                bad.append(("%s.%s: memory %r, row %r" % (n, l.fk, d[l.fk], row.get(l.fk)), n, f8))
    return bad


# ------------------------------------------------------------------ event-hook faults (C32)


class HookFault(Exception):
    """raised from a flush event hook by the harness"""


class HookPlan:
    """'the j-th invocation of hook <name> while armed raises HookFault'; also counts invocations"""

    def __init__(self):
        self.reset()

    def reset(self):
        self.armed = False
        self.counts = {}
        self.at = None  # (name, j)
        self.fired = False

    def arm(self, at=None):
        self.armed = True
        self.counts = {}
        self.at = at
        self.fired = False

    def disarm(self):
        self.armed = False

    def tick(self, name):
        if not self.armed:
            return
        self.counts[name] = self.counts.get(name, 0) + 1
        if self.at is not None and not self.fired and self.at[0] == name and self.at[1] == self.counts[name]:
            self.fired = True
            raise HookFault("injected fault in %s #%d" % self.at)


HOOKS = HookPlan()
MAPPER_HOOKS = ("before_insert", "before_update", "before_delete", "after_insert", "after_update", "after_delete")
SESSION_HOOKS = ("before_flush", "after_flush", "after_flush_postexec")


def install_mapper_hooks(w):
    """permanent (per process) mapper-level listeners on the world's classes; inert unless HOOKS is armed"""
    if getattr(w, "_hooks_installed", False):
        return
    w._hooks_installed = True
    for cname, cls in w.classes.items():
        if w.spec.cls[cname].base is not None:
            continue
        for hname in MAPPER_HOOKS:
            def fn(mapper, connection, target, _h=hname):
                HOOKS.tick(_h)
            event.listen(cls, hname, fn, propagate=True)


def install_session_hooks(session):
    def bf(session, ctx, instances):
        HOOKS.tick("before_flush")

    def af(session, ctx):
        HOOKS.tick("after_flush")

    def afp(session, ctx):
        HOOKS.tick("after_flush_postexec")

    event.listen(session, "before_flush", bf)
    event.listen(session, "after_flush", af)
    event.listen(session, "after_flush_postexec", afp)


def explore_with_probes(rec, root, enabled, step, depth, probes=(("flush",), ("commit",)), part=0, nparts=1):
    """BFS by replay like vf.engines.hist.explore, plus: at every state on the last level the *probe* operations are
    applied (checked in lock-step like any operation) without extending the search -- so every history of `depth`
    operations is followed by a flush and by a commit.  root = (history, model, key)"""
    from collections import deque

    hist0, ms0, key0 = root
    frontier = deque()
    if rec.state(key0):
        frontier.append((tuple(hist0), ms0, 0))
    maxd = 0
    while frontier:
        h, ms, d = frontier.popleft()
        if d >= depth:
            for op in probes:
                rec.transition()
                rec.trace()
                step(h, ms, op)
            continue
        for i, op in enumerate(enabled(ms)):
            if d == 0 and i % nparts != part:
                continue  # the first operation partitions the shard (work balance); deeper levels are complete
            rec.transition()
            rec.trace()
            out = step(h, ms, op)
            if out is None:
                continue
            nms, key = out
            if rec.state(key):
                frontier.append((h + (op,), nms, d + 1))
                maxd = max(maxd, d + 1)
    return maxd
