"""pickleworld: the small ORM / Core world used by C51 (pickling and serializer round trips).

Everything mapped lives at module level (pickle needs importable classes).

* mapping: ``P`` (id, name, deferred ``note``, one-to-many ``children`` with
  delete-orphan cascade and back reference) and ``C`` (id, pid, v, many-to-one
  ``parent``); the object universe is ``p1, c1, c2``.
* ``Universe``: one fresh in-memory database + session + the named objects,
  rebuilt by replaying an operation history (engine H: state = history).
* ``snapshot(obj)``: canonical, identity-free description of the *state* of the
  object graph reachable from ``obj`` through loaded relationship attributes
  (identity key, loaded values, expired attributes, committed_state, modified
  flag, loader options as cache keys, load path, pending callables).
"""
from __future__ import annotations

import enum

import sqlalchemy as sa
from sqlalchemy import inspect
from sqlalchemy.orm import DeclarativeBase
from sqlalchemy.orm import deferred
from sqlalchemy.orm import Mapped
from sqlalchemy.orm import mapped_column
from sqlalchemy.orm import relationship
from sqlalchemy.orm import Session
from sqlalchemy.pool import StaticPool


class Base(DeclarativeBase):
    pass


class P(Base):
    __tablename__ = "p"
    id: Mapped[int] = mapped_column(primary_key=True)
    name: Mapped[str | None] = mapped_column(sa.String(20))
    note: Mapped[str | None] = deferred(mapped_column(sa.String(20)))
    children: Mapped[list["C"]] = relationship(back_populates="parent", order_by="C.id", cascade="all, delete-orphan")

    def __repr__(self):
        return "P#%r" % (self.__dict__.get("id"),)


class C(Base):
    __tablename__ = "c"
    id: Mapped[int] = mapped_column(primary_key=True)
    pid: Mapped[int | None] = mapped_column(sa.ForeignKey("p.id"))
    v: Mapped[int | None]
    parent: Mapped[P | None] = relationship(back_populates="children")

    def __repr__(self):
        return "C#%r" % (self.__dict__.get("id"),)


class Color(enum.Enum):
    red = 1
    blue = 2


NAMES = ("p1", "c1", "c2")

# ---------------------------------------------------------------- histories

OPS = (
    "add_p1", "append_c1", "append_c2", "add_c2", "flush", "commit", "rollback", "expire_p1", "expire_p1_name", "expire_c1", "set_name", "set_v",
    "set_note", "load_plain", "load_selectin", "load_joined", "load_raise", "load_undefer", "load_c_joined", "touch_children", "touch_note",
    "expunge_p1", "expunge_c1", "close", "delete_c1", "remove_c1", "refresh_p1",
)
ROOTS = ("empty", "seeded")


class Universe:
    """one replay: fresh database, session, named objects"""

    def __init__(self, root):
        self.engine = sa.create_engine("sqlite://", connect_args={"autocommit": False}, poolclass=StaticPool)

        Base.metadata.create_all(self.engine, checkfirst=False)
        self.s = Session(self.engine)
        self.objs = {}
        if root == "seeded":
            with self.engine.begin() as conn:
                conn.execute(P.__table__.insert(), [dict(id=1, name="a", note="n")])
                conn.execute(C.__table__.insert(), [dict(id=1, pid=1, v=5), dict(id=2, pid=1, v=6)])
        else:
            self.objs["p1"] = P(id=1, name="a", note="n")
            self.objs["c1"] = C(id=1, v=5)
            self.objs["c2"] = C(id=2, v=6)

    def dispose(self):
        try:
            self.s.close()
        except Exception:  # noqa
            pass
        self.engine.dispose()

    # -- helpers
    def _bind_loaded(self):
        """named objects follow the identity map after a load"""
        for name, cls, pk in (("p1", P, 1), ("c1", C, 1), ("c2", C, 2)):
            key = self.s.identity_key(cls, pk)
            o = self.s.identity_map.get(key)
            if o is not None:
                self.objs[name] = o

    def apply(self, op):
        """returns an outcome string (exception class on misuse); never raises for SQLAlchemy errors"""
        try:
            return self._apply(op)
        except (sa.exc.SQLAlchemyError, ValueError, KeyError, AttributeError, TypeError) as e:
            try:
                self.s.rollback()
            except Exception:  # noqa
                pass
            return "!" + type(e).__name__

    def _apply(self, op):
        s, o = self.s, self.objs
        if op == "add_p1":
            s.add(o["p1"])
        elif op in ("append_c1", "append_c2"):
            c = o[op[-2:]]
            if c in o["p1"].children:  # the same object twice in one collection is not a state the property talks about
                return "already there"
            o["p1"].children.append(c)
        elif op == "add_c2":
            s.add(o["c2"])
        elif op == "flush":
            s.flush()
        elif op == "commit":
            s.commit()
        elif op == "rollback":
            s.rollback()
        elif op == "expire_p1":
            s.expire(o["p1"])
        elif op == "expire_p1_name":
            s.expire(o["p1"], ["name"])
        elif op == "expire_c1":
            s.expire(o["c1"])
        elif op == "set_name":
            o["p1"].name = "b"
        elif op == "set_note":
            o["p1"].note = "m"
        elif op == "set_v":
            o["c1"].v = 9
        elif op.startswith("load_"):
            from sqlalchemy.orm import joinedload, raiseload, selectinload, undefer

            if op == "load_c_joined":
                stmt = sa.select(C).options(joinedload(C.parent)).order_by(C.id)
            else:
                opt = dict(load_plain=None, load_selectin=selectinload(P.children), load_joined=joinedload(P.children),
                           load_raise=raiseload(P.children), load_undefer=undefer(P.note))[op]
                stmt = sa.select(P).order_by(P.id)
                if opt is not None:
                    stmt = stmt.options(opt)
            res = s.execute(stmt).unique().scalars().all()
            self._bind_loaded()
            return "loaded %d" % len(res)
        elif op == "touch_children":
            return "children %r" % ([c.id for c in o["p1"].children],)
        elif op == "touch_note":
            return "note %r" % (o["p1"].note,)
        elif op == "expunge_p1":
            s.expunge(o["p1"])
        elif op == "expunge_c1":
            s.expunge(o["c1"])
        elif op == "close":
            s.close()
        elif op == "delete_c1":
            s.delete(o["c1"])
        elif op == "remove_c1":
            o["p1"].children.remove(o["c1"])
        elif op == "refresh_p1":
            s.refresh(o["p1"])
        else:
            raise AssertionError(op)
        return "ok"

    def enabled(self, op):
        """cheap static filter: ops that need an object which does not exist yet are skipped"""
        need = dict(add_p1="p1", append_c1=("p1", "c1"), append_c2=("p1", "c2"), add_c2="c2", expire_p1="p1", expire_p1_name="p1", expire_c1="c1",
                    set_name="p1", set_note="p1", set_v="c1", touch_children="p1", touch_note="p1", expunge_p1="p1", expunge_c1="c1",
                    delete_c1="c1", remove_c1=("p1", "c1"), refresh_p1="p1").get(op)
        if need is None:
            return True
        need = (need,) if isinstance(need, str) else need
        return all(n in self.objs for n in need)

    def db(self):
        """rows as the session's own connection sees them (no autoflush, raw SQL)"""
        with self.s.no_autoflush:
            conn = self.s.connection()
            return (
                [tuple(r) for r in conn.exec_driver_sql("select id, name, note from p order by id")],
                [tuple(r) for r in conn.exec_driver_sql("select id, pid, v from c order by id")],
            )


def build(root, hist):
    u = Universe(root)
    for op in hist:
        u.apply(op)
    return u


# ---------------------------------------------------------------- canonical state

def lifecycle(st):
    if st.transient:
        return "transient"
    if st.pending:
        return "pending"
    if st.deleted:
        return "deleted"
    if st.persistent:
        return "persistent"
    if st.detached:
        return "detached"
    return "?"


def canon_option(opt):
    """semantic form of a loader option (a cache key compares object sharing
    inside the option too, which pickling legitimately does not keep)"""
    ctx = getattr(opt, "context", None)
    if ctx is None:
        return (type(opt).__name__,)
    out = [type(opt).__name__, str(getattr(opt, "path", "")), bool(getattr(opt, "propagate_to_loaders", None))]
    for c in ctx:
        out.append((
            type(c).__name__, str(c.path), tuple(c.strategy) if c.strategy is not None else None,
            tuple(sorted((k, repr(v)) for k, v in (c.local_opts or {}).items())), c.is_class_strategy, c.propagate_to_loaders,
            str(c._of_type) if getattr(c, "_of_type", None) is not None else None, len(getattr(c, "_extra_criteria", ()) or ()),
        ))
    return tuple(out)


def snapshot(root_obj, after_pickle=False):
    """canonical state of the graph reachable from root_obj.  With
    after_pickle=False the lifecycle is mapped to what pickling preserves
    (pending -> transient, persistent -> detached)"""
    index = {}
    order = []

    def visit(x):
        if id(x) in index:
            return index[id(x)]
        index[id(x)] = len(order)
        order.append(x)
        return index[id(x)]

    def val(v):
        if v is None or isinstance(v, (int, str, float, bool)):
            return v
        if hasattr(v, "_sa_instance_state"):
            return ("obj", visit(v))
        if isinstance(v, (list, tuple, set, frozenset)):
            return ("coll", tuple(val(x) for x in v))
        if hasattr(v, "_sa_adapter") or type(v).__name__ in ("InstrumentedList", "InstrumentedSet"):
            return ("coll", tuple(val(x) for x in v))
        n = getattr(v, "name", None)
        if n is not None:
            return ("sym", n)
        return ("other", type(v).__name__)

    visit(root_obj)
    recs = []
    i = 0
    while i < len(order):
        x = order[i]
        i += 1
        st = inspect(x)
        mapper = st.mapper
        d = st.dict
        cols = tuple((a.key, val(d[a.key])) for a in mapper.column_attrs if a.key in d)
        rels = tuple((r.key, val(d[r.key])) for r in mapper.relationships if r.key in d)
        lc = lifecycle(st)
        if not after_pickle:
            lc = {"pending": "transient", "persistent": "detached", "deleted": "detached"}.get(lc, lc)
        key = st.key and (st.key[0].__name__, tuple(st.key[1]), st.key[2])
        committed = tuple(sorted((k, val(v)) for k, v in st.committed_state.items()))
        opts = tuple(canon_option(o) for o in (st.load_options or ()))
        path = st.load_path.serialize() if st.load_path else ()
        recs.append(dict(
            cls=type(x).__name__, key=key, lifecycle=lc, cols=cols, rels=rels, expired_attributes=tuple(sorted(st.expired_attributes)),
            expired=bool(st.expired), committed_state=committed, modified=bool(st.modified), load_options=opts, load_path=tuple(map(repr, path)),
            callables=tuple(sorted(st.callables)) if st.callables else (), unloaded=tuple(sorted(st.unloaded)),
            pending_mutations=tuple(sorted(st._pending_mutations)) if st._pending_mutations else (),
        ))
    return recs


def diff_snapshots(a, b):
    """first difference as text, or None"""
    if len(a) != len(b):
        return "object graph has %d instances, after the round trip %d" % (len(a), len(b))
    for i, (x, y) in enumerate(zip(a, b)):
        for k in x:
            if x[k] != y[k]:
                return "%s#%d.%s: %r, after the round trip %r" % (x["cls"], i, k, _short(x[k]), _short(y[k]))
    return None


def _short(v):
    s = repr(v)
    return s if len(s) < 160 else s[:157] + "..."


# ---------------------------------------------------------------- bisimulation probes

PROBES = ("read_cols", "read_note", "read_rel", "set_flush", "append_flush", "expire_read", "refresh", "delete_flush", "merge_other", "commit_read")


def probe(u, obj, what):
    """apply one next-op to obj inside u.s; returns outcome (value or exception class) -- obj is already attached"""
    s = u.s
    try:
        isp = isinstance(obj, P)
        if what == "read_cols":
            return ("id", obj.id, "name", obj.name) if isp else ("id", obj.id, "v", obj.v, "pid", obj.pid)
        if what == "read_note":
            return obj.note if isp else obj.v
        if what == "read_rel":
            return [c.id for c in obj.children] if isp else (obj.parent.id if obj.parent is not None else None)
        if what == "set_flush":
            if isp:
                obj.name = "z"
            else:
                obj.v = 77
            s.flush()
            return "flushed"
        if what == "append_flush":
            if isp:
                obj.children.append(C(id=9, v=99))
            else:
                obj.parent = P(id=8, name="q")
            s.flush()
            return "flushed"
        if what == "expire_read":
            s.expire(obj)
            return (obj.id, obj.name) if isp else (obj.id, obj.v)
        if what == "refresh":
            s.refresh(obj)
            return (obj.id, obj.name) if isp else (obj.id, obj.v)
        if what == "delete_flush":
            s.delete(obj)
            s.flush()
            return "deleted"
        if what == "merge_other":
            s2 = Session(u.engine)
            try:
                m = s2.merge(obj, load=True)
                return (type(m).__name__, m.id, sorted(k for k in inspect(m).dict if not k.startswith("_")))
            finally:
                s2.close()
        if what == "commit_read":
            s.commit()
            return (obj.id, obj.name) if isp else (obj.id, obj.v)
        raise AssertionError(what)
    except sa.exc.SQLAlchemyError as e:
        return "!" + type(e).__name__


def graph(obj):
    """instances reachable from obj through loaded relationship attributes and attribute history"""
    seen, order = set(), [obj]
    seen.add(id(obj))
    i = 0
    while i < len(order):
        x = order[i]
        i += 1
        st = inspect(x)
        vals = [st.dict[r.key] for r in st.mapper.relationships if r.key in st.dict]
        vals += list(st.committed_state.values())  # the attribute history is pickled too (removed members live there)
        for v in vals:
            for y in (v if isinstance(v, (list, set, tuple)) or hasattr(v, "_sa_adapter") else [v]):
                if y is not None and hasattr(y, "_sa_instance_state") and id(y) not in seen:
                    seen.add(id(y))
                    order.append(y)
    return order


def session_side_knowledge(u, members):
    """reasons why the session knows something about these instances that their own
    pickle cannot carry (the one-step bisimulation is then not meaningful):
    a collection removal pending in some *other* object's attribute history, a
    second instance of the same identity living in the session, members that were
    expunged while their graph stayed, or an object outside the pickled graph that
    refers to a member"""
    from sqlalchemy.orm import attributes

    ids = {id(m) for m in members}
    for x in list(u.s) + list(members):
        st = inspect(x)
        for r in st.mapper.relationships:
            h = attributes.get_history(x, r.key, passive=attributes.PASSIVE_NO_INITIALIZE)
            for y in h.deleted or ():
                if y is not None and id(y) in ids:
                    return "pending-removal"
    for m in members:
        k = inspect(m).key
        if k is not None:
            other = u.s.identity_map.get(k)
            if other is not None and other is not m:
                return "other-instance-of-identity-in-session"
    inside = [m in u.s for m in members]
    if any(inside) and not all(inside):
        return "mixed-session-membership"  # e.g. a collection member that was expunged explicitly
    for x in list(u.s):
        if id(x) in ids:
            continue
        st = inspect(x)
        for r in st.mapper.relationships:
            if r.key in st.dict:
                v = st.dict[r.key]
                for y in (v if isinstance(v, (list, set, tuple)) or hasattr(v, "_sa_adapter") else [v]):
                    if y is not None and id(y) in ids:
                        return "referenced-from-outside-the-pickled-graph"
    return None


def attach_original(u, obj):
    """baseline universe: the original stays where it is (session.add() is still called, see below)"""
    try:
        u.s.add(obj)  # also for an attached one: add() runs the save-update cascade exactly as it does for the copy
        return "ok"
    except sa.exc.SQLAlchemyError as e:
        return "!" + type(e).__name__


def swap_in_copy(u, orig, copy):
    """other universe: the original graph leaves the session, the unpickled copy takes its place"""
    try:
        for x in graph(orig):
            if x in u.s:
                u.s.expunge(x)
        u.s.add(copy)
        return "ok"
    except sa.exc.SQLAlchemyError as e:
        return "!" + type(e).__name__


# ---------------------------------------------------------------- Core world (rows, results, metadata, statements)

core_md = sa.MetaData()
T1 = sa.Table("t1", core_md, sa.Column("id", sa.Integer, primary_key=True), sa.Column("a", sa.Integer), sa.Column("b", sa.String(10)),
              sa.Column("d", sa.Numeric(10, 2)), sa.Column("ok", sa.Boolean(create_constraint=False)), sa.Column("ts", sa.DateTime))
T2 = sa.Table("t2", core_md, sa.Column("id", sa.Integer, primary_key=True), sa.Column("t1_id", sa.ForeignKey("t1.id")), sa.Column("a", sa.Integer),
              sa.Column("note", sa.String(10), key="nt"))  # key != name: the serializer must address columns by key


def core_engine():
    import datetime
    import decimal

    e = sa.create_engine("sqlite://", poolclass=StaticPool)
    core_md.create_all(e)
    Base.metadata.create_all(e)
    with e.begin() as conn:
        conn.execute(T1.insert(), [
            dict(id=1, a=1, b="x", d=decimal.Decimal("1.50"), ok=True, ts=datetime.datetime(2021, 3, 4, 5, 6, 7)),
            dict(id=2, a=None, b="y", d=None, ok=False, ts=None),
            dict(id=3, a=1, b=None, d=decimal.Decimal("-2.25"), ok=None, ts=datetime.datetime(1999, 12, 31, 23, 59, 59, 5)),
        ])
        conn.execute(T2.insert(), [dict(id=1, t1_id=1, a=7, nt="n1"), dict(id=2, t1_id=1, a=None, nt=None), dict(id=3, t1_id=3, a=1, nt="n3")])
        conn.execute(P.__table__.insert(), [dict(id=1, name="a", note="n"), dict(id=2, name=None, note=None)])
        conn.execute(C.__table__.insert(), [dict(id=1, pid=1, v=5), dict(id=2, pid=1, v=6), dict(id=3, pid=2, v=None)])
    return e


def _j():
    return T1.join(T2, T1.c.id == T2.c.t1_id)


def statements():
    """(name, builder, kind) -- kind 'core' | 'orm' | 'dml'; builders return a fresh construct each call"""
    from sqlalchemy.orm import aliased, joinedload, selectinload, undefer, defer, load_only

    t1a = T1.alias("z")
    out = [
        ("cols", lambda: sa.select(T1.c.id, T1.c.a, T1.c.b).order_by(T1.c.id), "core"),
        ("star", lambda: sa.select(T1).order_by(T1.c.id), "core"),
        ("typed", lambda: sa.select(T1.c.d, T1.c.ok, T1.c.ts).order_by(T1.c.id), "core"),
        ("labels", lambda: sa.select(T1.c.a.label("q"), (T1.c.a + 1).label("r"), sa.literal("k").label("a")).order_by(T1.c.id), "core"),
        ("dupnames", lambda: sa.select(T1.c.a, T2.c.a, T1.c.id, T2.c.id).select_from(_j()).order_by(T2.c.id), "core"),
        ("where_bind", lambda: sa.select(T1.c.id).where(T1.c.a == sa.bindparam("x", 1)).order_by(T1.c.id), "core"),
        ("where_lit", lambda: sa.select(T1.c.id, T1.c.b).where(sa.or_(T1.c.b == "x", T1.c.a.is_(None))).order_by(T1.c.id), "core"),
        ("in_", lambda: sa.select(T1.c.id).where(T1.c.id.in_([1, 3, 5])).order_by(T1.c.id), "core"),
        ("in_empty", lambda: sa.select(T1.c.id).where(T1.c.id.in_([])), "core"),
        ("between_like", lambda: sa.select(T1.c.id).where(T1.c.id.between(1, 2), T1.c.b.like("%x%")), "core"),
        ("alias", lambda: sa.select(t1a.c.id, t1a.c.b).where(t1a.c.id > 1).order_by(t1a.c.id), "core"),
        ("join", lambda: sa.select(T1.c.b, T2.c.nt).select_from(_j()).order_by(T2.c.id), "core"),
        ("outerjoin", lambda: sa.select(T1.c.id, T2.c.id).select_from(T1.outerjoin(T2, T1.c.id == T2.c.t1_id)).order_by(T1.c.id, T2.c.id), "core"),
        ("group", lambda: sa.select(T1.c.a, sa.func.count().label("n")).group_by(T1.c.a).having(sa.func.count() >= 1).order_by(T1.c.a), "core"),
        ("distinct_limit", lambda: sa.select(T1.c.a).distinct().order_by(T1.c.a).limit(2).offset(1), "core"),
        ("subq", lambda: (lambda sq: sa.select(sq.c.id, sq.c.a).where(sq.c.id < 3).order_by(sq.c.id))(sa.select(T1).subquery("sq")), "core"),
        ("scalar_subq", lambda: sa.select(T1.c.id, sa.select(sa.func.count(T2.c.id)).where(T2.c.t1_id == T1.c.id).scalar_subquery().label("n")).order_by(T1.c.id),
         "core"),
        ("exists", lambda: sa.select(T1.c.id).where(sa.exists().where(T2.c.t1_id == T1.c.id)).order_by(T1.c.id), "core"),
        ("cte", lambda: (lambda c: sa.select(c.c.id).where(c.c.a == 1).order_by(c.c.id))(sa.select(T1.c.id, T1.c.a).cte("c1")), "core"),
        ("union", lambda: sa.union_all(sa.select(T1.c.id), sa.select(T2.c.id)).order_by("id"), "core"),
        ("case_cast", lambda: sa.select(sa.case((T1.c.a == 1, "one"), else_="other").label("w"), sa.cast(T1.c.id, sa.String).label("s")).order_by(T1.c.id), "core"),
        ("func_null", lambda: sa.select(sa.func.coalesce(T1.c.b, "-").label("b"), sa.null().label("nul"), sa.true().label("t")).order_by(T1.c.id), "core"),
        ("textcols", lambda: sa.text("select id, b from t1 order by id").columns(T1.c.id, T1.c.b), "core"),
        ("text_bind", lambda: sa.text("select id from t1 where id > :lo order by id").bindparams(lo=1), "core"),
        ("text_dup", lambda: sa.text("select t1.a, t2.a, t1.id, t2.id from t1 join t2 on t1.id = t2.t1_id order by t2.id"), "core"),
        ("nolabel_dup", lambda: sa.select(T1.c.a, T2.c.a, T2.c.id).select_from(_j()).order_by(T2.c.id).set_label_style(sa.LABEL_STYLE_NONE), "core"),
        ("orm_entity", lambda: sa.select(P).order_by(P.id), "orm"),
        ("orm_cols", lambda: sa.select(P.id, P.name).order_by(P.id), "orm"),
        ("orm_entity_col", lambda: sa.select(P, C.v).join(P.children).order_by(C.id), "orm"),
        ("orm_two", lambda: sa.select(P, C).join(C, P.children).order_by(C.id), "orm"),
        ("orm_aliased", lambda: (lambda ca: sa.select(ca.id, ca.v).where(ca.v > 5).order_by(ca.id))(aliased(C)), "orm"),
        ("orm_selectin", lambda: sa.select(P).options(selectinload(P.children)).order_by(P.id), "orm"),
        ("orm_joined", lambda: sa.select(P).options(joinedload(P.children)).order_by(P.id), "orm"),
        ("orm_undefer", lambda: sa.select(P).options(undefer(P.note)).order_by(P.id), "orm"),
        ("orm_defer", lambda: sa.select(P).options(defer(P.name)).order_by(P.id), "orm"),
        ("orm_load_only", lambda: sa.select(C).options(load_only(C.v)).order_by(C.id), "orm"),
        ("orm_path2", lambda: sa.select(C).options(joinedload(C.parent).selectinload(P.children)).order_by(C.id), "orm"),
        ("orm_where", lambda: sa.select(C).where(C.parent.has(P.name == "a")).order_by(C.id), "orm"),
        ("ins", lambda: T2.insert().values(id=10, t1_id=2, a=5, nt="new"), "dml"),
        ("ins_returning", lambda: T2.insert().values(id=11, t1_id=2, a=5, nt="r").returning(T2.c.id, T2.c.nt), "dml"),
        ("upd", lambda: T2.update().where(T2.c.a.is_(None)).values(a=T2.c.id + 100, nt="u"), "dml"),
        ("upd_corr", lambda: T2.update().values(nt=sa.select(T1.c.b).where(T1.c.id == T2.c.t1_id).scalar_subquery()), "dml"),
        ("del", lambda: T2.delete().where(T2.c.id.in_(sa.select(T2.c.id).where(T2.c.a == 7))), "dml"),
    ]
    return out


def metadata_family(tier):
    """(name, builder) for MetaData objects: feature deviations around a base"""
    feats = {
        "base": {},
        "composite_pk": dict(composite_pk=True),
        "fk": dict(fk=True),
        "fk_cycle": dict(fk=True, cycle=True),
        "index": dict(index=True),
        "unique": dict(unique=True),
        "check": dict(check=True),
        "defaults": dict(defaults=True),
        "server_default": dict(server_default=True),
        "types": dict(types=True),
        "schema": dict(schema="s1"),
        "naming": dict(naming=True),
        "info_comment": dict(info=True),
        "computed_identity": dict(computed=True),
        "enum_fn": dict(enum=True),
        "fk_ondelete": dict(fk=True, ondelete=True),
        "all": dict(composite_pk=True, fk=True, index=True, unique=True, check=True, defaults=True, server_default=True, types=True, info=True),
    }
    if tier == "thorough":
        names = [k for k in feats if k not in ("base", "all")]
        for i, a in enumerate(names):
            for b in names[i + 1:]:
                if a.startswith("fk") and b.startswith("fk"):
                    continue
                if {a, b} & {"schema"} and {a, b} & {"fk", "fk_cycle", "fk_ondelete"}:
                    continue
                feats[a + "+" + b] = {**feats[a], **feats[b]}

    def mk(f):
        def build():
            kw = {}
            if f.get("naming"):
                kw["naming_convention"] = {"ix": "ix_%(column_0_label)s", "uq": "uq_%(table_name)s_%(column_0_name)s", "fk": "fk_%(table_name)s_%(column_0_name)s",
                                           "pk": "pk_%(table_name)s", "ck": "ck_%(table_name)s_%(constraint_name)s"}
            if f.get("schema"):
                kw["schema"] = f["schema"]
            md = sa.MetaData(**kw)
            cols = [sa.Column("id", sa.Integer, primary_key=True)]
            if f.get("composite_pk"):
                cols.append(sa.Column("id2", sa.String(5), primary_key=True))
            cols.append(sa.Column("x", sa.Integer, nullable=False, default=5 if f.get("defaults") else None,
                                  server_default=sa.text("7") if f.get("server_default") else None,
                                  comment="the x" if f.get("info") else None, info={"k": 1} if f.get("info") else None))
            cols.append(sa.Column("y", sa.String(10), index=bool(f.get("index")), unique=bool(f.get("unique")) or None,
                                  onupdate="upd" if f.get("defaults") else None))
            if f.get("types"):
                cols += [sa.Column("n", sa.Numeric(10, 2)), sa.Column("b", sa.Boolean(create_constraint=True, name="ck_b")), sa.Column("dt", sa.DateTime(timezone=True)),
                         sa.Column("js", sa.JSON), sa.Column("lb", sa.LargeBinary(16)), sa.Column("fl", sa.Float(asdecimal=True)),
                         sa.Column("pt", sa.PickleType), sa.Column("iv", sa.Interval)]
            if f.get("enum"):
                cols += [sa.Column("e", sa.Enum(Color, name="color")), sa.Column("e2", sa.Enum("a", "b", name="ab", create_constraint=True))]
            if f.get("computed"):
                cols += [sa.Column("cx", sa.Integer, sa.Computed("x + 1"))]
            args = []
            if f.get("check"):
                args.append(sa.CheckConstraint("x > 0", name="xpos"))
            if f.get("unique"):
                args.append(sa.UniqueConstraint("x", "y", name="uq_xy"))
            if f.get("index"):
                args.append(sa.Index("ix_xy", "x", "y"))
            ta = sa.Table("ta", md, *cols, *args, info={"tbl": "a"} if f.get("info") else None, comment="table a" if f.get("info") else None)
            if f.get("fk"):
                fkargs = dict(ondelete="CASCADE", onupdate="SET NULL") if f.get("ondelete") else {}
                pre = (f["schema"] + ".") if f.get("schema") else ""
                if f.get("composite_pk"):
                    tb = sa.Table("tb", md, sa.Column("id", sa.Integer, primary_key=True), sa.Column("a_id", sa.Integer), sa.Column("a_id2", sa.String(5)),
                                  sa.ForeignKeyConstraint(["a_id", "a_id2"], [pre + "ta.id", pre + "ta.id2"], name="fk_tb_ta", **fkargs))
                else:
                    tb = sa.Table("tb", md, sa.Column("id", sa.Integer, primary_key=True), sa.Column("a_id", sa.ForeignKey(pre + "ta.id", name="fk_tb_ta", **fkargs)))
                sa.Table("tc", md, sa.Column("id", sa.Integer, primary_key=True), sa.Column("b_id", sa.ForeignKey(pre + "tb.id")))
                if f.get("cycle"):
                    ta.append_column(sa.Column("b_id", sa.Integer))
                    ta.append_constraint(sa.ForeignKeyConstraint(["b_id"], [pre + "tb.id"], name="fk_ta_tb", use_alter=True))
            return md

        return build

    return [(name, mk(f)) for name, f in feats.items()]
