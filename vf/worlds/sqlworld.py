"""sqlworld -- the small cross-product table world shared by the SQL-semantics checks.

One table ``t(id, w, a, b, c INTEGER NULL; p BOOLEAN NULL; s, u TEXT NULL; f REAL; d NUMERIC)``
holding three *worlds* (column ``w``), each the full cross product of small
domains over the columns the expressions of that world use, so "for every
row" literally means every combination of values:

    w=0 "num"  a,b,c in NUM_DOM (5^3 = 125 rows); p cycles NULL,0,1 diagonally (every (p,a,b) combination occurs)
    w=1 "str"  s,u in STR_DOM x p in BOOL_DOM (6*6*3 = 108 rows)
    w=2 "mix"  a,b in NUM_DOM x s,u in STR_DOM (25*36 = 900 rows); p diagonal; c cycles
               (quick tier uses the sub-world w=3: a,b in NUM_DOM x s,u in the 3-value STR_DOM_SMALL = 225 rows)

API
---
``make_engine()``                      fresh in-memory SQLite engine with the table created and filled,
                                       ``PRAGMA case_sensitive_like=ON`` (standard LIKE semantics)
``t``                                  the ``Table`` (module-level, shared MetaData ``metadata``)
``rows(world)``                        list of row dicts of that world, in id order
``world_for(columns)``                 smallest world whose product covers these columns
``iter_trees`` / ``count_trees``       lazy / counting variants of ``trees``
``trees(n, typ, ops=OPS)``             all typed ASTs (``vf.models.sql3vl`` node forms) with exactly n operator
                                       nodes and placeholder leaves; ``assign_columns`` gives leaves canonical
                                       distinct columns; ``literal_variants`` replaces one leaf by each literal
``build(ast, grouped=False)``          the SQLAlchemy expression for an AST; ``grouped=True`` = every operand
                                       wrapped in an explicit (opaque) Grouping, negation as NOT ( x )
"""
from __future__ import annotations

import itertools

import sqlalchemy as sa
from sqlalchemy.sql import elements
from sqlalchemy.sql import operators

from ..models import sql3vl

NUM_DOM = (None, -2, 0, 1, 3)
STR_DOM = (None, "", "a", "A%", "o'q", "_\\")
STR_DOM_SMALL = (None, "", "a")
BOOL_DOM = (None, 0, 1)

metadata = sa.MetaData()
t = sa.Table(
    "t",
    metadata,
    sa.Column("id", sa.Integer, primary_key=True),
    sa.Column("w", sa.Integer, index=True),
    sa.Column("a", sa.Integer),
    sa.Column("b", sa.Integer),
    sa.Column("c", sa.Integer),
    sa.Column("p", sa.Boolean(create_constraint=False)),
    sa.Column("s", sa.String),
    sa.Column("u", sa.String),
    sa.Column("f", sa.Float),
    sa.Column("d", sa.Numeric(10, 2)),
)

COLTYPES = sql3vl.DEFAULT_COLTYPES
WORLDS = {"num": 0, "str": 1, "mix": 2, "mixq": 3}


def _gen_rows():
    out = []
    rid = 0
    i = 0
    for c in NUM_DOM:
        for b in NUM_DOM:
            for a in NUM_DOM:
                rid += 1
                out.append(dict(id=rid, w=0, a=a, b=b, c=c, p=BOOL_DOM[i % 3], s=None, u=None, f=None, d=None))
                i += 1
    for p in BOOL_DOM:
        for u in STR_DOM:
            for s in STR_DOM:
                rid += 1
                out.append(dict(id=rid, w=1, a=None, b=None, c=None, p=p, s=s, u=u, f=None, d=None))
    for w, dom in ((2, STR_DOM), (3, STR_DOM_SMALL)):
        i = 0
        for u in dom:
            for s in dom:
                for b in NUM_DOM:
                    for a in NUM_DOM:
                        rid += 1
                        out.append(
                            dict(id=rid, w=w, a=a, b=b, c=NUM_DOM[(i // 7) % 5], p=BOOL_DOM[(i + i // 5 + i // 25) % 3], s=s, u=u, f=None, d=None)
                        )
                        i += 1
    return out


_ROWS = _gen_rows()
_BY_WORLD = {}
for _r in _ROWS:
    _BY_WORLD.setdefault(_r["w"], []).append(_r)


def rows(world):
    """row dicts of a world ('num' 'str' 'mix' 'mixq' or its number), id order; p is 0/1/None as stored"""
    return _BY_WORLD[WORLDS.get(world, world)]


def model_rows(world):
    """rows as the evaluator wants them: boolean column p as True/False/None"""
    out = []
    for r in rows(world):
        r = dict(r)
        r["p"] = None if r["p"] is None else bool(r["p"])
        out.append(r)
    return out


def world_for(columns, quick=False):
    num = any(c in ("a", "b", "c") for c in columns)
    st = any(c in ("s", "u") for c in columns)
    if num and st:
        return "mixq" if quick else "mix"
    if st:
        return "str"
    return "num"


def make_engine():
    eng = sa.create_engine("sqlite://")
    sa.event.listen(eng, "connect", lambda dbapi_con, rec: dbapi_con.execute("PRAGMA case_sensitive_like=ON"))
    metadata.create_all(eng)
    with eng.begin() as c:
        c.execute(t.insert(), _ROWS)
    return eng


# ------------------------------------------------------------------ typed tree enumeration

# (node kind, result type, argument types, family)
#   family "core"  : strictly typed operators
#   family "mixed" : string concatenation with a numeric operand (implicit cast; accepted by SQLAlchemy,
#                    SQLite, PostgreSQL and Oracle)
OPS = (
    [(k, "N", ("N", "N"), "core") for k in ("add", "sub", "mul", "truediv", "floordiv", "mod")]
    + [("neg", "N", ("N",), "core"), ("case", "N", ("B", "N", "N"), "core"), ("cast:N", "N", ("S",), "core"), ("ssq", "N", ("N",), "core")]
    + [("concat", "S", ("S", "S"), "core"), ("cast:S", "S", ("N",), "core")]
    + [("concat", "S", ("S", "N"), "mixed"), ("concat", "S", ("N", "S"), "mixed")]
    + [(k, "B", ("N", "N"), "core") for k in sql3vl.CMP]
    + [("eq", "B", ("S", "S"), "core"), ("lt", "B", ("S", "S"), "core")]
    + [("eq", "B", ("B", "B"), "core"), ("ne", "B", ("B", "B"), "core")]
    + [(k, "B", (ty,), "core") for k in ("is_null", "is_not_null") for ty in ("N", "S", "B")]
    + [("idf", "B", ("N", "N"), "core"), ("indf", "B", ("N", "N"), "core"), ("idf", "B", ("B", "B"), "core")]
    + [("between", "B", ("N", "N", "N"), "core"), ("not_between", "B", ("N", "N", "N"), "core"), ("between", "B", ("S", "S", "S"), "core")]
    + [("like", "B", ("S", "S"), "core"), ("not_like", "B", ("S", "S"), "core"), ("ilike", "B", ("S", "S"), "core")]
    + [("in", "B", ("N", "N", "N"), "core"), ("not_in", "B", ("N", "N", "N"), "core")]
    + [("inl", "B", ("N",), "core"), ("not_inl", "B", ("N",), "core")]
    + [("and", "B", ("B", "B"), "core"), ("or", "B", ("B", "B"), "core"), ("not", "B", ("B",), "core")]
)
INL_VALUES = (0, 3)  # the literal list of the one-operand IN forms ("inl"/"not_inl": x IN (0, 3), expanding bind)

_HOLE = {"N": ("hole", "N"), "S": ("hole", "S"), "B": ("hole", "B")}


def _compositions(total, parts):
    if parts == 1:
        yield (total,)
        return
    for first in range(total + 1):
        for rest in _compositions(total - first, parts - 1):
            yield (first,) + rest


_tree_cache = {}


def trees(n, typ, ops=OPS):
    """all ASTs of result type typ with exactly n operator nodes, leaves = ("hole", type); simplest-first,
    deterministic order.  ``cast:X`` kinds become ("cast", x, X); "inl" becomes ("in", x, lit, lit)."""
    key = (n, typ, id(ops))
    if key in _tree_cache:
        return _tree_cache[key]
    out = []
    if n == 0:
        out.append(_HOLE[typ])
    else:
        for kind, rt, args, fam in ops:
            if rt != typ:
                continue
            for comp in _compositions(n - 1, len(args)):
                subs = [trees(k, a, ops) for k, a in zip(comp, args)]
                for combo in itertools.product(*subs):
                    out.append(_mk(kind, combo))
    _tree_cache[key] = out
    return out


def iter_trees(n, typ, ops=OPS):
    """the same trees in the same order as trees(n, typ) but generated lazily at the top level (sub-trees come from
    the cached lists of the smaller sizes): for sizes whose full list would not fit comfortably in memory"""
    if n == 0:
        yield _HOLE[typ]
        return
    for kind, rt, args, fam in ops:
        if rt != typ:
            continue
        for comp in _compositions(n - 1, len(args)):
            subs = [trees(k, a, ops) for k, a in zip(comp, args)]
            for combo in itertools.product(*subs):
                yield _mk(kind, combo)


_count_cache = {}


def count_trees(n, typ, ops=OPS):
    key = (n, typ, id(ops))
    if key not in _count_cache:
        if n == 0:
            _count_cache[key] = 1
        else:
            tot = 0
            for kind, rt, args, fam in ops:
                if rt != typ:
                    continue
                for comp in _compositions(n - 1, len(args)):
                    x = 1
                    for k, a in zip(comp, args):
                        x *= count_trees(k, a, ops)
                    tot += x
            _count_cache[key] = tot
    return _count_cache[key]


def _mk(kind, ch):
    if kind.startswith("cast:"):
        return ("cast", ch[0], kind[5:])
    if kind == "inl":
        return ("in", ch[0]) + tuple(("lit", v, "N") for v in INL_VALUES)
    if kind == "not_inl":
        return ("not_in", ch[0]) + tuple(("lit", v, "N") for v in INL_VALUES)
    return (kind,) + tuple(ch)


def holes(ast):
    if ast[0] == "hole":
        return 1
    if ast[0] in ("col", "lit"):
        return 0
    return sum(holes(c) for c in sql3vl.children(ast))


def _rebuild(ast, newch):
    k = ast[0]
    if k == "cast":
        return ("cast", newch[0], ast[2])
    if k in ("like", "not_like", "ilike", "not_ilike"):
        return (k,) + tuple(newch) + tuple(ast[3:])
    return (k,) + tuple(newch)


def fill(ast, leaves):
    """replace the holes left-to-right by the given leaf nodes (iterator)"""
    if ast[0] == "hole":
        return next(leaves)
    if ast[0] in ("col", "lit"):
        return ast
    return _rebuild(ast, [fill(c, leaves) for c in sql3vl.children(ast)])


def hole_types(ast, acc=None):
    acc = [] if acc is None else acc
    if ast[0] == "hole":
        acc.append(ast[1])
    elif ast[0] not in ("col", "lit"):
        for c in sql3vl.children(ast):
            hole_types(c, acc)
    return acc


def assign_columns(ast):
    """canonical leaves: i-th numeric hole -> a,b,c (a,b only if the tree also has string holes),
    string holes -> s,u alternating, boolean holes -> p"""
    tys = hole_types(ast)
    ncols = ("a", "b") if "S" in tys else ("a", "b", "c")
    cnt = {"N": 0, "S": 0}
    leaves = []
    for ty in tys:
        if ty == "N":
            leaves.append(("col", ncols[cnt["N"] % len(ncols)]))
            cnt["N"] += 1
        elif ty == "S":
            leaves.append(("col", ("s", "u")[cnt["S"] % 2]))
            cnt["S"] += 1
        else:
            leaves.append(("col", "p"))
    return fill(ast, iter(leaves)), leaves


LITERALS = {
    "N": [("lit", None, "N"), ("lit", -2, "N"), ("lit", 0, "N"), ("lit", 1, "N"), ("lit", 3, "N")],
    "S": [("lit", None, "S"), ("lit", "", "S"), ("lit", "a", "S")],
    "B": [("lit", True, "B"), ("lit", False, "B"), ("lit", None, "B")],
}


def literal_variants(ast):
    """every tree obtained from the column-assigned tree by replacing exactly one leaf by one literal"""
    tys = hole_types(ast)
    _, leaves = assign_columns(ast)
    for i, ty in enumerate(tys):
        for lit in LITERALS[ty]:
            lv = list(leaves)
            lv[i] = lit
            yield fill(ast, iter(lv))


# ------------------------------------------------------------------ AST -> SQLAlchemy


class OpaqueGrouping(elements.Grouping):
    """an explicit parenthesis that does not forward the wrapped element's operator attributes, so that no
    construction-time rewriting (associative flattening, negation pairing) can see through it"""

    inherit_cache = True
    _HIDE = frozenset(["operator", "negate", "_flattened_operator_clauses", "clauses", "left", "right", "modifier", "modifiers"])

    def __getattr__(self, attr):
        if attr in OpaqueGrouping._HIDE:
            raise AttributeError(attr)
        return getattr(self.element, attr)


_SA_TYPES = {"N": sa.Integer, "S": sa.String, "B": sa.Boolean}
_BINOPS = {
    "add": lambda x, y: x + y,
    "sub": lambda x, y: x - y,
    "mul": lambda x, y: x * y,
    "truediv": lambda x, y: x / y,
    "floordiv": lambda x, y: x // y,
    "mod": lambda x, y: x % y,
    "concat": lambda x, y: x.concat(y),
    "eq": lambda x, y: x == y,
    "ne": lambda x, y: x != y,
    "lt": lambda x, y: x < y,
    "le": lambda x, y: x <= y,
    "gt": lambda x, y: x > y,
    "ge": lambda x, y: x >= y,
    "idf": lambda x, y: x.is_distinct_from(y),
    "indf": lambda x, y: x.is_not_distinct_from(y),
}


def build(ast, grouped=False, table=t):
    """SQLAlchemy expression for the AST.  grouped=True: the reference rendering -- every operand of every
    node wrapped in an explicit parenthesis, NOT rendered as the plain unary operator on a parenthesised operand."""
    k = ast[0]
    if k == "col":
        return table.c[ast[1]]
    if k == "lit":
        v, ty = ast[1], ast[2]
        if ty == "B" and v is not None:
            return sa.true() if v else sa.false()
        return sa.literal(v, _SA_TYPES[ty])
    ch = [build(c, grouped, table) for c in sql3vl.children(ast)]
    if grouped:
        ch = [OpaqueGrouping(c) for c in ch]
    if k in _BINOPS:
        r = ch[0]
        for y in ch[1:]:
            r = _BINOPS[k](r, y)
        return r
    if k == "neg":
        return -ch[0]
    if k == "not":
        if grouped:
            return elements.UnaryExpression(ch[0], operator=operators.inv, type_=sa.Boolean())
        return sa.not_(ch[0])
    if k == "and":
        return sa.and_(*ch)
    if k == "or":
        return sa.or_(*ch)
    if k == "is_null":
        return ch[0].is_(None)
    if k == "is_not_null":
        return ch[0].is_not(None)
    if k == "between":
        return ch[0].between(ch[1], ch[2])
    if k == "not_between":
        return ch[0].not_between(ch[1], ch[2]) if hasattr(ch[0], "not_between") else sa.not_(ch[0].between(ch[1], ch[2]))
    if k in ("like", "not_like", "ilike", "not_ilike"):
        esc = ast[3] if len(ast) > 3 else None
        return getattr(ch[0], k)(ch[1], escape=esc)
    if k in ("in", "not_in"):
        items = sql3vl.children(ast)[1:]
        if items and all(i[0] == "lit" for i in items):
            vals = [i[1] for i in items]
            return ch[0].in_(vals) if k == "in" else ch[0].not_in(vals)
        return ch[0].in_(ch[1:]) if k == "in" else ch[0].not_in(ch[1:])
    if k == "case":
        return sa.case((ch[0], ch[1]), else_=ch[2])
    if k == "cast":
        return sa.cast(ch[0], {"N": sa.Integer, "S": sa.String, "F": sa.Float}[ast[2]])
    if k == "ssq":
        return sa.select(ch[0]).correlate(table).scalar_subquery()
    raise ValueError("cannot build %r" % (k,))
