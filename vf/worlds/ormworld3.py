"""ormworld3: tiny declarative-style mappings (built once per process and
cached), fresh database / Session / object universe per replay.

Worlds (``world(kind, coll, style, ...)``):

* ``o2m``  U1 one-to-many bidirectional  P.cs  <->  C.p,  collection class
  list / set / dict (``attribute_keyed_dict("name")``)
* ``o2o``  U7 one-to-one  P.c (``uselist=False``)  <->  C.p
* ``m2m``  U2 many-to-many  P.cs  <->  C.ps  through ``secondary`` (list or set
  on both sides)
* ``m2o``  unidirectional many-to-one  C.p  (no backref; C36 / C46)

each with ``style`` = ``bp`` (two relationships joined by back_populates) or
``backref`` (legacy ``backref=``).  Every class additionally has scalar
columns ``name`` (NOT NULL, natural label of the harness object), ``x``
(active_history off) and ``y`` (active_history on) for C36 / C45 / C46.

The parent-side class is always ``P`` and the child-side class ``C``; the
universe is ``p1..pN`` and ``c1..cM`` with fixed primary keys (p_i -> i,
c_j -> 10 + j) so that identities are stable across replays.
"""
from __future__ import annotations

import os
import shutil
import sqlite3

from sqlalchemy import Column
from sqlalchemy import create_engine
from sqlalchemy import event
from sqlalchemy import ForeignKey
from sqlalchemy import Integer
from sqlalchemy import MetaData
from sqlalchemy import String
from sqlalchemy import Table
from sqlalchemy.orm import attribute_keyed_dict
from sqlalchemy.orm import backref
from sqlalchemy.orm import column_property
from sqlalchemy.orm import registry
from sqlalchemy.orm import relationship
from sqlalchemy.orm import Session
from sqlalchemy.pool import StaticPool

_WORLDS = {}


class World:
    """one mapping set: classes P and C, metadata, relationship kind"""

    def __init__(self, kind, coll, style, m2o_active_history=False, cascade=None, value_eq=False):
        self.kind, self.coll, self.style = kind, coll, style
        self.m2o_active_history = m2o_active_history
        self.value_eq = value_eq
        self.key = (kind, coll, style, m2o_active_history, cascade, value_eq)
        self._engine = None
        reg = registry()
        md = reg.metadata
        self.metadata = md
        self.registry = reg
        pt = Table(
            "p",
            md,
            Column("id", Integer, primary_key=True),
            Column("name", String(10)),
            Column("x", Integer),
            Column("y", Integer),
        )
        ccols = [
            Column("id", Integer, primary_key=True),
            Column("name", String(10)),
            Column("x", Integer),
            Column("y", Integer),
        ]
        if kind in ("o2m", "o2o", "m2o"):
            ccols.append(Column("p_id", Integer, ForeignKey("p.id")))
        ct = Table("c", md, *ccols)
        self.p_table, self.c_table = pt, ct
        self.assoc = None
        if kind == "m2m":
            self.assoc = Table(
                "pc",
                md,
                Column("p_id", Integer, ForeignKey("p.id"), primary_key=True),
                Column("c_id", Integer, ForeignKey("c.id"), primary_key=True),
            )

        class P:
            def __init__(self, **kw):
                for k, v in kw.items():
                    setattr(self, k, v)

            def __repr__(self):
                return "<P %s>" % self.__dict__.get("name", "?")

        class C:
            def __init__(self, **kw):
                for k, v in kw.items():
                    setattr(self, k, v)

            def __repr__(self):
                return "<C %s>" % self.__dict__.get("name", "?")

        if value_eq:
            # value-based equality on the mapped classes: *distinct* rows
            # compare equal (and hash alike).  Everything the ORM decides about
            # object references has to go by identity, never by ==.
            for cls in (P, C):
                cls.__eq__ = lambda self, other: type(other) is type(self)
                cls.__ne__ = lambda self, other: type(other) is not type(self)
                cls.__hash__ = lambda self: 7
        self.P, self.C = P, C
        cc = {"list": list, "set": set, "dict": attribute_keyed_dict("name")}.get(coll)
        pprops = {"y": column_property(pt.c.y, active_history=True)}
        cprops = {"y": column_property(ct.c.y, active_history=True)}
        rk = {}
        if cascade is not None:
            rk["cascade"] = cascade
        if kind == "o2m":
            if style == "uni":  # one-to-many without a many-to-one side
                pprops["cs"] = relationship(C, collection_class=cc, **rk)
            elif style == "bp":
                pprops["cs"] = relationship(C, back_populates="p", collection_class=cc, **rk)
                cprops["p"] = relationship(P, back_populates="cs", active_history=m2o_active_history)
            else:
                pprops["cs"] = relationship(
                    C, collection_class=cc, backref=backref("p", active_history=m2o_active_history), **rk
                )
        elif kind == "m2o":
            # unidirectional many-to-one (no collection side, no backref)
            cprops["p"] = relationship(P, active_history=m2o_active_history)
        elif kind == "o2o":
            if style == "bp":
                pprops["c"] = relationship(C, back_populates="p", uselist=False, active_history=m2o_active_history, **rk)
                cprops["p"] = relationship(P, back_populates="c", active_history=m2o_active_history)
            else:
                pprops["c"] = relationship(
                    C,
                    uselist=False,
                    active_history=m2o_active_history,
                    backref=backref("p", active_history=m2o_active_history),
                    **rk,
                )
        elif kind == "m2m":
            if style == "bp":
                pprops["cs"] = relationship(C, secondary=self.assoc, back_populates="ps", collection_class=cc, **rk)
                cprops["ps"] = relationship(P, secondary=self.assoc, back_populates="cs", collection_class=cc)
            else:
                pprops["cs"] = relationship(
                    C, secondary=self.assoc, collection_class=cc, backref=backref("ps", collection_class=cc), **rk
                )
        else:
            raise AssertionError(kind)
        reg.map_imperatively(P, pt, properties=pprops)
        reg.map_imperatively(C, ct, properties=cprops)
        reg.configure()
        # name of the relationship attribute on each side
        self.p_attr = "c" if kind == "o2o" else "cs"
        self.c_attr = "ps" if kind == "m2m" else "p"
        self.bidirectional = style != "uni" and kind != "m2o"

    # ------------------------------------------------------------ database
    def memory_engine(self, init_sql=""):
        """a *fresh* in-memory database with the schema created (and the
        rows of ``init_sql``, a ;-separated script, committed).

        One Engine (one dialect, one compiled-statement cache) per world and
        process; ``dispose()`` drops the previous in-memory database, the next
        checkout opens a new ``:memory:`` connection through ``_creator`` which
        runs the CREATE TABLE script rendered once from the metadata."""
        if self._engine is None:
            from sqlalchemy.schema import CreateTable

            eng = create_engine("sqlite://", poolclass=StaticPool, creator=self._creator)
            self._ddl = ";\n".join(
                str(CreateTable(t).compile(eng)).strip() for t in self.metadata.sorted_tables
            )
            self._engine = eng
        else:
            self._engine.dispose()
        self._init_sql = init_sql
        self.raw = None
        return self._engine

    def _creator(self):
        conn = sqlite3.connect(":memory:", autocommit=False, check_same_thread=False)
        conn.executescript(self._ddl + ";\n" + self._init_sql)
        conn.commit()
        self.raw = conn
        return conn

    def raw_rows(self, sql):
        """read through the very DBAPI connection the StaticPool hands to the
        Session (sees the open transaction's uncommitted rows)"""
        if self.raw is None:
            self._engine.raw_connection().close()  # first checkout runs _creator
        return self.raw.execute(sql).fetchall()

    def rows_sql(self, pnames, cnames, pairs):
        """INSERT script for the universe with relation ``pairs`` [(p, c)]"""
        out = ["insert into p (id, name) values (%d, '%s')" % (self.pk(n), n) for n in pnames]
        for c in cnames:
            if self.kind == "m2m":
                out.append("insert into c (id, name) values (%d, '%s')" % (self.pk(c), c))
            else:
                par = [p for p, cc in pairs if cc == c]
                out.append(
                    "insert into c (id, name, p_id) values (%d, '%s', %s)"
                    % (self.pk(c), c, self.pk(par[0]) if par else "NULL")
                )
        if self.kind == "m2m":
            out += ["insert into pc (p_id, c_id) values (%d, %d)" % (self.pk(p), self.pk(c)) for p, c in pairs]
        return ";\n".join(out)

    def persistent_universe(self, sess, pnames, cnames, pairs, loaded):
        """the universe as persistent objects of ``sess`` for database rows
        ``rows_sql(...)`` without emitting SQL: ``make_transient_to_detached``
        + ``add``.  loaded=False: every attribute except the primary key is
        expired (the state after commit()); loaded=True: columns and both
        relationship sides are present as if loaded
        (``attributes.set_committed_value``, the documented way to install a
        loaded value)."""
        from sqlalchemy.orm import make_transient_to_detached
        from sqlalchemy.orm.attributes import set_committed_value

        objs = {}
        for n in list(pnames) + list(cnames):
            cls = self.P if n[0] == "p" else self.C
            if loaded:
                o = cls(id=self.pk(n), name=n, x=None, y=None)
            else:
                o = cls(id=self.pk(n))
            objs[n] = o
        if loaded:
            for c in cnames:
                par = [p for p, cc in pairs if cc == c]
                if self.kind == "m2m":
                    set_committed_value(objs[c], "ps", self._mk([objs[p] for p in par]))
                else:
                    objs[c].p_id = self.pk(par[0]) if par else None
                    if self.bidirectional:
                        set_committed_value(objs[c], "p", objs[par[0]] if par else None)
            for p in pnames:
                ch = [objs[c] for pp, c in pairs if pp == p]
                if self.kind == "o2o":
                    set_committed_value(objs[p], "c", ch[0] if ch else None)
                else:
                    set_committed_value(objs[p], "cs", self._mk(ch))
        for o in objs.values():
            make_transient_to_detached(o)
        for o in objs.values():
            sess.add(o)
        return objs

    def _mk(self, items):
        # set_committed_value takes any iterable of members (the collection's
        # appender computes dict keys)
        return list(items)

    def pk(self, name):
        return int(name[1:]) + (10 if name[0] == "c" else 0)

    def new(self, name, **kw):
        cls = self.P if name[0] == "p" else self.C
        return cls(id=self.pk(name), name=name, **kw)


def world(kind, coll=None, style="bp", m2o_active_history=False, cascade=None, value_eq=False):
    key = (kind, coll, style, m2o_active_history, cascade, value_eq)
    w = _WORLDS.get(key)
    if w is None:
        w = _WORLDS[key] = World(kind, coll, style, m2o_active_history, cascade, value_eq)
    return w


# ---------------------------------------------------------------- statement counter


class SqlLog:
    """records statements executed on an engine (for 'zero SQL' oracles and
    for reading which columns an UPDATE sets)"""

    def __init__(self, engine):
        self.stmts = []
        event.listen(engine, "before_cursor_execute", self._on)

    def _on(self, conn, cursor, statement, parameters, context, executemany):
        self.stmts.append((statement, parameters))

    def mark(self):
        return len(self.stmts)

    def since(self, mark):
        return self.stmts[mark:]


# ---------------------------------------------------------------- file databases (C46)

_SHM = None


def shm_dir():
    """per-process scratch dir under /dev/shm, created on first use"""
    global _SHM
    if _SHM is None or not os.path.isdir(_SHM) or not _SHM.endswith("-%d" % os.getpid()):
        _SHM = "/dev/shm/vf-%d-orm3-%d" % (os.getppid(), os.getpid())
        cleanup_stale_shm()
        os.makedirs(_SHM, exist_ok=True)
        import atexit

        atexit.register(cleanup_shm, _SHM, os.getpid())
    return _SHM


def cleanup_stale_shm():
    """remove scratch dirs of this module whose owning process is gone (pool
    workers are terminated without running atexit handlers)"""
    import glob

    for d in glob.glob("/dev/shm/vf-*-orm3-*"):
        try:
            pid = int(d.rsplit("-", 1)[1])
        except ValueError:
            continue
        if pid == os.getpid():
            continue
        try:
            os.kill(pid, 0)
        except ProcessLookupError:
            shutil.rmtree(d, ignore_errors=True)
        except PermissionError:
            pass


def cleanup_shm(path=None, pid=None):
    global _SHM
    if pid is not None and pid != os.getpid():
        return
    path = path or _SHM
    if path and os.path.isdir(path):
        shutil.rmtree(path, ignore_errors=True)
    if path == _SHM:
        _SHM = None


class FileDb:
    """a fresh WAL-mode file database per replay, reached through ONE Engine
    per (world, process) (one dialect -> the compiled-statement cache stays
    warm): StaticPool + creator that connects to the current path with
    ``timeout=0, autocommit=False``; plus an independent observer connection
    (autocommit, ``timeout=0``) that performs the external committed writes."""

    _engines = {}
    _n = 0

    def __init__(self, w, init_sql):
        FileDb._n += 1
        self.w = w
        self.path = os.path.join(shm_dir(), "db%d.sqlite" % FileDb._n)
        self._rm()
        boot = sqlite3.connect(self.path, timeout=0, isolation_level=None)
        boot.execute("PRAGMA journal_mode=WAL")
        boot.execute("PRAGMA synchronous=OFF")
        w.memory_engine()  # renders w._ddl once (and drops its :memory: db)
        boot.executescript("BEGIN;\n" + w._ddl + ";\n" + init_sql + ";\nCOMMIT;")
        boot.close()
        ent = FileDb._engines.get(w.key)
        if ent is None:
            holder = {"path": self.path}

            def creator():
                return sqlite3.connect(holder["path"], timeout=0, autocommit=False, check_same_thread=False)

            eng = create_engine("sqlite://", poolclass=StaticPool, creator=creator)
            ent = FileDb._engines[w.key] = (eng, holder)
        self.engine, holder = ent
        self.engine.dispose()
        holder["path"] = self.path
        self.observer = sqlite3.connect(self.path, timeout=0, isolation_level=None)

    def external(self, sql, params=()):
        """one committed write from outside; True, or False when SQLite
        refused it (the session holds the write lock) - an environment answer"""
        try:
            self.observer.execute(sql, params)
            return True
        except sqlite3.OperationalError as e:
            if "locked" in str(e) or "busy" in str(e):
                return False
            raise

    def committed(self, sql, params=()):
        return self.observer.execute(sql, params).fetchall()

    def _rm(self):
        for suf in ("", "-wal", "-shm"):
            try:
                os.unlink(self.path + suf)
            except FileNotFoundError:
                pass

    def close(self):
        try:
            self.observer.close()
        finally:
            self.engine.dispose()
            self._rm()


__all__ = ["world", "World", "SqlLog", "FileDb", "Session", "shm_dir", "cleanup_shm", "cleanup_stale_shm"]
