"""asyncworld: one program text, three executions (sync API on sqlite3, async API
on the virtual loop with the fake driver, async API on the real aiosqlite).

A *program* is ``(scope, pre, ops)``:

* scope  ``connect`` = ``engine.connect()``, ``begin`` = ``engine.begin()``,
  ``session`` = ``Session(engine)`` / ``AsyncSession(engine)``,
  ``sbegin`` = session + ``session.begin()`` block
* pre    ``cold`` = fresh engine (first connect runs the dialect's
  initialisation), ``warm`` = one connect/close happened before, the pool holds
  an idle connection
* ops    tuple of op names from CORE_OPS / SESSION_OPS

The program text is written once against "await it if it is awaitable"
(``aw``) and "enter it with whichever protocol it has" (``Ctx``); the sync
execution drives the coroutine with ``send(None)`` and requires that it never
suspends.
"""
from __future__ import annotations

import asyncio
import gc
import inspect
import logging
import os
import re
import sqlite3
import warnings

import sqlalchemy as sa
from sqlalchemy import event
from sqlalchemy import pool as sa_pool
from sqlalchemy.ext.asyncio import AsyncSession
from sqlalchemy.ext.asyncio import create_async_engine
from sqlalchemy.orm import DeclarativeBase
from sqlalchemy.orm import Mapped
from sqlalchemy.orm import mapped_column
from sqlalchemy.orm import Session

from ..engines import aloop

# the pool logs "Exception during reset or similar" with a traceback for every
# interrupted reset; keep stderr clean (the outcome is observed through the oracle)
logging.getLogger("sqlalchemy").addHandler(logging.NullHandler())
logging.getLogger("sqlalchemy").propagate = False

metadata = sa.MetaData()
T = sa.Table("t", metadata, sa.Column("id", sa.Integer, primary_key=True), sa.Column("v", sa.Integer))


class Base(DeclarativeBase):
    pass


class Item(Base):
    __table__ = T

    def __repr__(self):
        return "Item(%r)" % (self.__dict__.get("id"),)


CORE_OPS = ("ins", "insmany", "sel", "scalar", "stream", "begin", "nested", "sp_rollback", "sp_commit", "commit", "rollback", "bad", "run_sync",
            "close", "exec_opts", "upd")
SESSION_OPS = ("add", "flush", "commit", "rollback", "get", "refresh", "exec", "scalars", "stream_scalars", "merge", "delete", "nested",
               "sp_rollback", "close", "addbad", "upd")
MARK = 777


class _Stop(Exception):
    pass


async def aw(x):
    if inspect.isawaitable(x):
        return await x
    return x


class Ctx:
    """enter/exit an object with whichever context-manager protocol it has"""

    def __init__(self, obj):
        self.obj = obj

    async def __aenter__(self):
        o = self.obj
        if hasattr(o, "__aenter__"):
            return await o.__aenter__()
        return o.__enter__()

    async def __aexit__(self, *a):
        o = self.obj
        if hasattr(o, "__aexit__"):
            return await o.__aexit__(*a)
        return o.__exit__(*a)


def _rows(r):
    return [tuple(x) for x in r]


class Run:
    """mutable per-execution record shared with the oracle"""

    def __init__(self, is_async, observe=None):
        self.is_async = is_async
        self.steps = []  # (op, outcome)
        self.progress = []  # ("enter"|"start i"|"done i"|"exit"|"exited")
        self.snaps = {}  # sync run only: committed rows after each boundary
        self.n = 0  # insert counter
        self.observe = observe
        self.sps = []
        self.first = None

    def mark(self, what):
        self.progress.append(what)
        if self.observe is not None:
            self.snaps[what] = self.observe()


async def core_op(run, conn, op):
    if op == "ins":
        run.n += 1
        r = await aw(conn.execute(T.insert().values(id=run.n, v=10 + run.n)))
        return r.rowcount
    if op == "insmany":
        a, b = run.n + 1, run.n + 2
        run.n += 2
        r = await aw(conn.execute(T.insert(), [dict(id=a, v=10 + a), dict(id=b, v=10 + b)]))
        return r.rowcount
    if op == "upd":
        r = await aw(conn.execute(T.update().values(v=T.c.v + 100).where(T.c.id >= 1)))
        return r.rowcount
    if op == "sel":
        r = await aw(conn.execute(sa.select(T).order_by(T.c.id)))
        return _rows(r.all())
    if op == "scalar":
        return await aw(conn.scalar(sa.select(sa.func.count()).select_from(T).where(T.c.id >= sa.bindparam("lo")), {"lo": 2}))
    if op == "stream":
        stmt = sa.select(T).order_by(T.c.id)
        if run.is_async:
            res = await conn.stream(stmt)
            first = _rows(await res.fetchmany(1))
            await res.close()
        else:
            res = conn.execution_options(stream_results=True).execute(stmt)
            first = _rows(res.fetchmany(1))
            res.close()
        return first
    if op == "exec_opts":
        c2 = await aw(conn.execution_options(isolation_level="SERIALIZABLE"))
        return c2 is conn
    if op == "begin":
        await aw(conn.begin())
        return conn.in_transaction()
    if op == "nested":
        sp = await aw(conn.begin_nested())
        run.sps.append(sp)
        return conn.in_nested_transaction()
    if op in ("sp_rollback", "sp_commit"):
        if not run.sps:
            return "no-savepoint"
        sp = run.sps.pop()
        await aw(sp.rollback() if op == "sp_rollback" else sp.commit())
        return (sp.is_active, conn.in_nested_transaction())
    if op == "commit":
        await aw(conn.commit())
        return conn.in_transaction()
    if op == "rollback":
        await aw(conn.rollback())
        return conn.in_transaction()
    if op == "close":
        await aw(conn.close())
        return conn.closed
    if op == "bad":
        r = await aw(conn.execute(T.insert().values(id=1, v=-1)))
        run.n = max(run.n, 1)
        return r.rowcount
    if op == "run_sync":

        def fn(sync_conn, k):
            sync_conn.execute(T.insert().values(id=k, v=50 + k))
            return sync_conn.execute(sa.select(sa.func.count()).select_from(T)).scalar()

        run.n += 1
        if run.is_async:
            return await conn.run_sync(fn, run.n)
        return fn(conn, run.n)
    raise AssertionError(op)


async def session_op(run, s, op):
    if op == "add":
        run.n += 1
        o = Item(id=run.n, v=10 + run.n)
        s.add(o)
        if run.first is None:
            run.first = o
        return len(s.new)
    if op == "addbad":
        s.add(Item(id=1, v=-1))
        run.n = max(run.n, 1)
        return len(s.new)
    if op == "flush":
        await aw(s.flush())
        return (len(s.new), len(s.dirty))
    if op == "commit":
        await aw(s.commit())
        return s.in_transaction()
    if op == "rollback":
        await aw(s.rollback())
        return s.in_transaction()
    if op == "get":
        o = await aw(s.get(Item, 1, populate_existing=True))
        return None if o is None else (o.id, o.v)
    if op == "refresh":
        if run.first is None:
            return "no-object"
        await aw(s.refresh(run.first, attribute_names=["v"]))
        return run.first.v  # only what was refreshed: touching another expired attribute is implicit IO (MissingGreenlet by design)
    if op == "exec":
        r = await aw(s.execute(sa.select(T.c.id, T.c.v).where(T.c.id >= sa.bindparam("lo")).order_by(T.c.id), {"lo": 1}))
        return _rows(r.all())
    if op == "upd":
        r = await aw(s.execute(sa.update(Item).values(v=Item.v + 100).where(Item.id >= 1), execution_options={"synchronize_session": False}))
        return r.rowcount
    if op == "scalars":
        r = await aw(s.scalars(sa.select(Item).where(Item.id <= sa.bindparam("hi")).order_by(Item.id), {"hi": 2},
                               execution_options={"populate_existing": True}))
        return [(o.id, o.v) for o in r.all()]
    if op == "stream_scalars":
        stmt = sa.select(Item).order_by(Item.id)
        if run.is_async:
            r = await s.stream_scalars(stmt)
            out = [(o.id, o.v) for o in await r.all()]
        else:
            r = s.scalars(stmt, execution_options={"stream_results": True})
            out = [(o.id, o.v) for o in r.all()]
        return out
    if op == "merge":
        o = await aw(s.merge(Item(id=1, v=99), load=True))
        run.n = max(run.n, 1)
        return (o.id, o.v, o in s.new, o in s.dirty)
    if op == "delete":
        o = await aw(s.get(Item, 1))
        if o is None:
            return "nothing"
        await aw(s.delete(o))
        return len(s.deleted)
    if op == "nested":
        sp = await aw(s.begin_nested())
        run.sps.append(sp)
        return s.in_nested_transaction()
    if op == "sp_rollback":
        if not run.sps:
            return "no-savepoint"
        sp = run.sps.pop()
        await aw(sp.rollback())
        return (sp.is_active, s.in_nested_transaction())
    if op == "close":
        await aw(s.close())
        return s.in_transaction()
    raise AssertionError(op)


# ---------------------------------------------------------------- result accessor family
#
# spec = (api, route, chain, accessor): the same text runs  conn.execute / conn.scalars / session.execute / session.scalars
# (sync) and  conn.stream / conn.stream_scalars / session.stream / session.stream_scalars  (async); the rows are seeded by
# the world before the program starts.

ACC_APIS = ("core", "ormcols", "orment")
ACC_CHAINS_RESULT = (
    (), ("unique",), ("mappings",), ("scalars",), ("scalars1",), ("columns1",), ("yield_per1",), ("tuples",),
    ("unique", "scalars"), ("unique", "mappings"), ("unique", "columns1"), ("columns1", "scalars"), ("columns1", "mappings"),
    ("columns1", "unique"), ("scalars", "unique"), ("mappings", "unique"), ("mappings", "columns1"), ("unique", "scalars1"),
)
ACC_CHAINS_SCALAR = ((), ("unique",))
ACC_ACCESSORS = (
    ("all",), ("fetchall",), ("first",), ("one",), ("one_or_none",), ("scalar",), ("scalar_one",), ("scalar_one_or_none",), ("fetchone",),
    ("fetchmany", 1), ("fetchmany", 2), ("fetchmany", None), ("partitions", 2), ("iter",), ("next2",), ("keys",), ("freeze",),
)
ACC_SIZES = ((), (10,), (10, 20), (10, 10), (10, 20, 10))


def acc_text(spec):
    api, route, chain, acc = spec
    src = {"core": "conn", "ormcols": "session[cols]", "orment": "session[entity]"}[api]
    calls = "".join(".%s()" % c.replace("scalars1", "scalars(1").replace("columns1", "columns(1").replace("yield_per1", "yield_per(1").replace("()", "()")
                    if not c[-1].isdigit() else ".%s(%s)" % (c[:-1], c[-1]) for c in chain)
    a = "%s(%s)" % (acc[0], ", ".join(repr(x) for x in acc[1:]))
    return "%s.%s(stmt)%s.%s" % (src, route, calls, a)


def _canon(v):
    if isinstance(v, Item):
        return ("Item", v.id, v.v)
    if isinstance(v, sa.engine.RowMapping):
        return {k: _canon(x) for k, x in v.items()}
    if isinstance(v, (tuple, sa.engine.Row)):
        return tuple(_canon(x) for x in v)
    if isinstance(v, list):
        return [_canon(x) for x in v]
    if v is None or isinstance(v, (int, str, float, bool)):
        return v
    return type(v).__name__


async def accessor_body(run, engine, spec):
    api, route, chain, acc = spec
    if api == "core":
        stmt = sa.select(T.c.v, (T.c.v + 1).label("w")).order_by(T.c.id)
        cm = engine.connect()
    else:
        stmt = (sa.select(Item.v, (Item.v + 1).label("w")) if api == "ormcols" else sa.select(Item)).order_by(Item.id)
        cm = (AsyncSession if run.is_async else Session)(engine)
    async with Ctx(cm) as obj:
        run.mark("start 0")
        res = None
        try:
            if run.is_async:
                res = await getattr(obj, route)(stmt)
            else:
                # AsyncConnection.stream() is execute() with stream_results: the same cursor strategy on both sides
                res = getattr(obj, {"stream": "execute", "stream_scalars": "scalars"}[route])(stmt, execution_options={"stream_results": True})
            cur = res
            for c in chain:
                if c[-1].isdigit():
                    cur = getattr(cur, c[:-1])(int(c[-1]))
                else:
                    cur = getattr(cur, c)()
            name = acc[0]
            if name == "iter":
                out = [r async for r in cur] if run.is_async else [r for r in cur]
            elif name == "next2":
                if run.is_async:
                    out = [await cur.__anext__(), await cur.__anext__()]
                else:
                    out = [next(cur), next(cur)]
            elif name == "partitions":
                if run.is_async:
                    out = [list(p) async for p in cur.partitions(acc[1])]
                else:
                    out = [list(p) for p in cur.partitions(acc[1])]
            elif name == "keys":
                out = list(cur.keys())
            elif name == "freeze":
                fr = await aw(cur.freeze())
                out = [fr().all(), fr().all()]
            else:
                out = await aw(getattr(cur, name)(*acc[1:]))
            out = _canon(out)
        except StopAsyncIteration:
            out = "!StopIteration"
        except Exception as e:  # noqa
            out = "!" + type(e).__name__
        finally:
            if res is not None:
                try:
                    await aw(res.close())
                except Exception:  # noqa
                    pass
        run.steps.append((acc_text(spec), out))
        run.mark("done 0")
        run.mark("exit")
    run.mark("exited")


async def program(run, engine, scope, ops):
    """the program text (shared by the sync and the async API)"""
    run.mark("enter")
    if scope == "acc":
        await accessor_body(run, engine, ops)
        return
    if scope in ("connect", "begin"):
        cm = engine.connect() if scope == "connect" else engine.begin()
        stepper = core_op
    else:
        cm = (AsyncSession if run.is_async else Session)(engine)
        stepper = session_op
    async def body(obj):
        for i, op in enumerate(ops):
            run.mark("start %d" % i)
            try:
                out = await stepper(run, obj, op)
            except Exception as e:  # noqa  (CancelledError is a BaseException: it unwinds)
                out = "!" + type(e).__name__
            run.steps.append((op, out))
            run.mark("done %d" % i)
        run.mark("exit")

    async with Ctx(cm) as obj:
        if scope == "sbegin":
            async with Ctx(obj.begin()):
                await body(obj)
        else:
            await body(obj)
    run.mark("exited")


async def follow_up(run, engine):
    """a following program on the same engine: must succeed and see its own marker"""
    async with Ctx(engine.connect()) as conn:
        await aw(conn.execute(T.insert().values(id=MARK, v=MARK)))
        await aw(conn.commit())
        r = await aw(conn.execute(sa.select(T.c.id).where(T.c.id == MARK)))
        return _rows(r.all())


async def warm_up(engine):
    async with Ctx(engine.connect()) as conn:
        await aw(conn.scalar(sa.select(sa.func.count()).select_from(T)))


# ------------------------------------------------------------------ world


class World:
    """one database file under /dev/shm, re-initialised for every execution"""

    def __init__(self, tag):
        self.dir = "/dev/shm/vf-%d-c29" % os.getpid()
        os.makedirs(self.dir, exist_ok=True)
        self.path = os.path.join(self.dir, "%s.db" % tag)
        self.setup = None
        self.seed = ()  # rows present before the program runs (accessor family)

    def fresh(self):
        for suffix in ("", "-journal", "-wal", "-shm"):
            try:
                os.unlink(self.path + suffix)
            except FileNotFoundError:
                pass
        c = sqlite3.connect(self.path)
        c.execute("create table t (id integer primary key, v integer)")
        if self.seed:
            c.executemany("insert into t values (?, ?)", self.seed)
        c.commit()
        c.close()

    def observe(self):
        """what an independent connection sees (committed data only); timeout=0"""
        c = sqlite3.connect(self.path, timeout=0)
        try:
            return [tuple(r) for r in c.execute("select id, v from t order by id")]
        except sqlite3.OperationalError as e:
            return ["!observer cannot read: %s" % e]
        finally:
            c.close()

    def probe_locks(self):
        """can an independent connection write and commit right now? (a read or
        write transaction left open on any other connection makes this fail)"""
        c = sqlite3.connect(self.path, timeout=0, isolation_level=None)
        try:
            c.execute("begin immediate")
            c.execute("insert into t values (-5, -5)")
            c.execute("commit")
            c.execute("delete from t where id = -5")
            return None
        except sqlite3.OperationalError as e:
            try:
                c.execute("rollback")
            except Exception:
                pass
            return str(e)
        finally:
            c.close()

    def cleanup(self):
        import shutil

        shutil.rmtree(self.dir, ignore_errors=True)


class PoolLog:
    """pool events (public API), keyed by connection record: every checkout is
    followed by exactly one check-in (or a detach), never two"""

    def __init__(self, pool, stamp=lambda: 0):
        self.ev = []
        self.keep = []
        self.stamps = []
        self.stamp = stamp
        for name in ("checkout", "checkin", "invalidate", "soft_invalidate", "close", "detach", "reset"):
            event.listen(pool, name, self._mk(name))

    def _mk(self, name):
        def go(dbapi_conn, rec, *a):
            self.keep.append(rec)
            self.ev.append((name, id(rec)))
            self.stamps.append(self.stamp())

        return go

    def phase(self, ledger):
        """where is the pool right now: 'new-connection-init' = the driver has
        handed over a new connection and the pool has not completed a checkout
        since (connect events / dialect initialisation are running);
        'checked-out' / 'idle' otherwise"""
        last_connect = max((i for i, e in enumerate(ledger) if e[0] == "connect"), default=None)
        if last_connect is not None and not any(n == "checkout" and st > last_connect for (n, _), st in zip(self.ev, self.stamps)):
            return "new-connection-init"
        last = [n for n, _ in self.ev if n in ("checkout", "checkin")]
        return "checked-out" if last and last[-1] == "checkout" else "idle"

    def problems(self):
        out = []
        state = {}
        for name, rid in self.ev:
            if name == "checkout":
                if state.get(rid) == "out":
                    out.append("connection record checked out twice without a check-in")
                state[rid] = "out"
            elif name == "checkin":
                if state.get(rid) != "out":
                    out.append("connection record checked in %s" % ("twice" if state.get(rid) == "in" else "without a checkout"))
                state[rid] = "in"
            elif name == "detach":
                state[rid] = "in"
        for rid, st in state.items():
            if st == "out":
                out.append("a checked-out connection record was never checked in or detached")
        return out


def run_sync_api(world, scope, pre, ops):
    world.fresh()
    eng = sa.create_engine("sqlite:///" + world.path, connect_args=dict(autocommit=False, timeout=0), poolclass=sa_pool.QueuePool, pool_size=1,
                           max_overflow=0)
    run = Run(False, observe=world.observe)
    try:
        if pre == "warm":
            _drive_sync(warm_up(eng))
        err = None
        with warnings.catch_warnings(record=True) as caught:
            warnings.simplefilter("always")
            try:
                _drive_sync(program(run, eng, scope, ops))
            except Exception as e:  # noqa
                err = "!" + type(e).__name__
        run.warnings = _warn_set(caught)
        run.error = err
        run.final = world.observe()
        run.snaps["final"] = run.final
        run.checkedout = eng.pool.checkedout()
        try:
            run.follow = _drive_sync(follow_up(run, eng))
        except Exception as e:  # noqa
            run.follow = "!" + type(e).__name__
    finally:
        eng.dispose()
    return run


def _warn_set(caught):
    return sorted({"%s: %s" % (w.category.__name__, re.sub(r"<.*>", "<obj>", str(w.message))[:160]) for w in caught
                   if not issubclass(w.category, (DeprecationWarning, ResourceWarning))})


def _drive_sync(coro):
    try:
        coro.send(None)
    except StopIteration as si:
        return si.value
    coro.close()
    raise AssertionError("the synchronous execution of the program suspended")


class AsyncOutcome:
    pass


def run_async_api(world, scope, pre, ops, hook_factory=None, wrap_timeout=None, count=None):
    """one execution on a fresh virtual loop with the fake driver.
    hook_factory(offset, out) -> hook, offset = loop.steps at the start of the program
    (the warm-up does not count)."""
    world.fresh()
    loop = aloop.VLoop()
    driver = aloop.FakeDriver(world.path)
    eng = create_async_engine("sqlite+aiosqlite://", async_creator=driver.creator, poolclass=sa_pool.AsyncAdaptedQueuePool, pool_size=1,
                              max_overflow=0)
    plog = PoolLog(eng.sync_engine.pool, stamp=lambda: len(driver.ledger))
    run = Run(True)
    out = AsyncOutcome()
    out.run = run
    out.driver = driver
    out.plog = plog
    gc_was = gc.isenabled()
    gc.disable()
    caught = []
    try:
        with warnings.catch_warnings(record=True) as caught:
            warnings.simplefilter("always")
            if pre == "warm":
                loop.drive(loop.spawn(warm_up(eng)))
                loop.settle()
            offset = loop.steps
            out.offset = offset
            coro = program(run, eng, scope, ops)
            if wrap_timeout is not None:
                coro = asyncio.wait_for(coro, wrap_timeout)
            task = loop.spawn(coro)
            hook = hook_factory(offset, out) if hook_factory else None
            if count is not None:
                count.offset = offset
                hook = count
            loop.drive(task, hook)
            out.steps_used = loop.steps - offset
            loop.settle()
            if task.cancelled():
                out.result = "cancelled"
            elif task.exception() is not None:
                out.result = "!" + type(task.exception()).__name__
            else:
                out.result = "ok"
            # what the program held in its (now dead) frames is gone in a real program too
            del run.sps[:]
            run.first = None
            out.exc_tb = None
            if not task.cancelled() and task.exception() is not None:
                import traceback as _tb

                out.exc_tb = "".join(_tb.format_exception(task.exception()))[-1500:]
            del task, coro
            loop.settle()
            # before the cyclic collector runs: what reference counting alone gives back
            out.checkedout_pre_gc = eng.sync_engine.pool.checkedout()
            gc.collect()
            loop.settle()
            # ---- post-conditions, observed before anything else touches the engine
            p = eng.sync_engine.pool
            out.checkedout = p.checkedout()
            out.checkedin = p.checkedin()
            out.open_conns = len(driver.open_conns())
            out.lock = world.probe_locks()
            out.visible = world.observe()
            out.commits = driver.commits
            # ---- a following program
            t2 = loop.spawn(follow_up(run, eng))
            try:
                loop.drive(t2)
                loop.settle()
                out.follow = "!" + type(t2.exception()).__name__ if t2.exception() is not None else t2.result()
                if t2.exception() is not None:
                    out.follow += ": " + str(t2.exception())[:160]
            except aloop.Deadlock:
                out.follow = "!deadlock (the follow-up program waits for a pool slot forever)"
            del t2
            gc.collect()
            loop.settle()
            out.pool_problems = plog.problems()
            out.loop_exc = [str(c.get("message")) + (": " + type(c["exception"]).__name__ if c.get("exception") is not None else "") for c in loop.exc]
            # dispose (also through the loop)
            t3 = loop.spawn(eng.dispose())
            try:
                loop.drive(t3)
                loop.settle()
            except Exception:  # noqa
                pass
        out.warnings = _warn_set(caught)
    finally:
        driver.close_all()
        loop.dispose()
        if gc_was:
            gc.enable()
    return out


def run_real_aiosqlite(world, scope, pre, ops):
    """conformance of the fake driver: the same cancellation-free program on the
    real (thread backed) aiosqlite with a stock event loop"""
    world.fresh()
    run = Run(True)

    async def main():
        eng = create_async_engine("sqlite+aiosqlite:///" + world.path, connect_args=dict(autocommit=False, timeout=0),
                                  poolclass=sa_pool.AsyncAdaptedQueuePool, pool_size=1, max_overflow=0)
        try:
            if pre == "warm":
                await warm_up(eng)
            err = None
            try:
                await program(run, eng, scope, ops)
            except Exception as e:  # noqa
                err = "!" + type(e).__name__
            run.error = err
            run.final = world.observe()
            try:
                run.follow = await follow_up(run, eng)
            except Exception as e:  # noqa
                run.follow = "!" + type(e).__name__
        finally:
            await eng.dispose()

    with warnings.catch_warnings(record=True) as caught:
        warnings.simplefilter("always")
        asyncio.run(main())
    run.warnings = _warn_set(caught)
    return run
