"""c34_world -- C34's private extension of ormworld1 (nothing else imports this module).

* ``Doc``: composite primary key ``(id, rev)`` whose second column carries a
  Python-side ``onupdate`` default ("revision counter in the key"): every
  UPDATE of a row moves the row to a new primary key *inside the flush*,
  without any attribute set event.  The counter is per World (reset when a
  World is created, exposed as ``rev_next``), so a replayed history always
  sees the same revisions.
* ``World34``: ``ormworld1.World`` + the operation ``merge_all`` (Session.merge_all
  of several fresh transient sources) + seeding of the ``doc`` table + queries
  ordered by the whole primary key.

``Doc`` is declared on ormworld1's ``Base`` (so the per-process template
database gets the table) and is entered into ormworld1's per-class registries
in this process only; the shared module file is unchanged.
"""
from __future__ import annotations

import sqlite3

from sqlalchemy import select
from sqlalchemy.orm import Mapped
from sqlalchemy.orm import mapped_column

from . import ormworld1 as W

_REV = [2]


def _next_rev():
    v = _REV[0]
    _REV[0] = v + 1
    return v


class Doc(W.Base):
    __tablename__ = "doc"
    id: Mapped[int] = mapped_column(primary_key=True, autoincrement=False)
    rev: Mapped[int] = mapped_column(primary_key=True, autoincrement=False, default=1, onupdate=_next_rev)
    name: Mapped[str | None]


W.CLASSES.setdefault("Doc", Doc)
W.COLATTRS.setdefault("Doc", ("id", "rev", "name"))
W.RELATTRS.setdefault("Doc", ())
W.PKATTR.setdefault("Doc", "id")  # first primary-key attribute; the full tuple is PKATTRS below

PKATTRS = dict(Doc=("id", "rev"))


def pkattrs(clsname):
    return PKATTRS.get(clsname) or (W.PKATTR[clsname],)


class World34(W.World):
    def __init__(self, cfg):
        _REV[0] = 2
        super().__init__(cfg)
        rows = (cfg.get("seed") or {}).get("doc", ())
        if rows:
            c = sqlite3.connect(self.path, isolation_level=None)
            for row in rows:
                c.execute("insert into doc values (%s)" % ",".join("?" * len(row)), tuple(row))
            c.close()

    @property
    def rev_next(self):
        return _REV[0]

    def _select(self, clsname, opts):
        cls = W.CLASSES[clsname]
        stmt = select(cls).order_by(*[getattr(cls, a) for a in pkattrs(clsname)])
        if opts:
            stmt = stmt.execution_options(**dict(opts))
        return stmt

    def op_query(self, clsname, opts=None):
        res = self.session.scalars(self._select(clsname, opts)).all()
        return [self.name_of(o) for o in res]

    def op_query_iter(self, clsname, opts=None):
        out = []
        for o in self.session.scalars(self._select(clsname, opts)):
            out.append(self.name_of(o))
        return out

    def op_merge_all(self, clsname, sources):
        """Session.merge_all() of fresh transient copies, one per entry of `sources`;
        returns (names of the results in order, lifecycle state of every source afterwards)"""
        srcs = []
        for values in sources:
            src = W.CLASSES[clsname]()
            for k, v in values:
                setattr(src, k, v)
            src.__dict__["_vf_name"] = "src"
            srcs.append(src)
        merged = list(self.session.merge_all(srcs))
        assert len(merged) == len(srcs)
        return [self.name_of(m) for m in merged], [W.state_of(s) for s in srcs]
