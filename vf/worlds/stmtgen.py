"""stmtgen -- the statement universe (DESIGN.md §2.6).  Owner: builder "stmt1".

A *statement* is a pair ``(shape, features)``: ``shape`` names one of the base
shapes in ``SHAPES`` and ``features`` is a dict over that shape's ordered
feature table (first value of every feature = the shape's *base* value).  A
feature that is irrelevant to a shape is absent from the shape's table, and a
feature that only matters together with another one carries a *requires*
clause, so "Hamming distance <= d from the base" never counts no-ops.

Public API (everything is deterministic, nothing is sampled)
-----------------------------------------------------------

``SHAPES``                      ordered dict  shape -> [(feature, values, requires|None), ...]; ``requires`` is a
                                predicate over the whole assignment that must hold when the feature deviates
                                Shapes: sel page in join fromsub scalar exists cte setop group text expr upsert
                                insert update delete params orm ormload ormdml (ORM_SHAPES / DML_SHAPES name subsets)
``base(shape)``                 the base assignment (dict, in table order)
``valid(shape, feats)``         does the assignment satisfy every requires-clause
``NotConstructible``            raised by ``build`` / ``build_exec`` when SQLAlchemy's constructors refuse the
                                assignment (ArgumentError / InvalidRequestError); ``family`` leaves such members out
``neighbours(shape, d)``        every assignment at Hamming distance <= d from the base,
                                simplest first (distance 0, then 1, then 2 ...; inside one
                                distance in feature-table / value order)
``family(d, shapes=None)``      [(shape, feats), ...] for all shapes (list, same order)
``sid(shape, feats)``           canonical short id, e.g. ``sel[lit1=2,limit=1]``;
``parse_sid(s)``                inverse of ``sid`` -> (shape, feats)
``distance(shape, f1, f2)``     Hamming distance of two assignments of one shape
``build(shape, feats)``         a FRESH SQLAlchemy construct on every call (Select, CompoundSelect,
                                TextualSelect, Insert, Update, Delete, ORM-enabled Select / DML or a
                                session-less legacy ``Query``); only the Table / mapper objects of
                                the world are shared.
``build_exec(shape, feats)``    ``Built(stmt, params, route, unique, preload)``: the construct plus how
                                to run it.  ``params``: None | dict | list of dicts (executemany),
                                ``route``: "core" (Connection.execute), "orm" (Session.execute),
                                "query" (legacy Query.with_session(..).all()), ``unique``: the ORM
                                result needs ``.unique()``, ``preload``: load all A objects into the
                                session first (ORM DML synchronisation).
``make_engine(**create_engine_kw)``  SQLite ``:memory:`` engine holding the world's tables and the fixed
                                data set (NULLs, duplicates, empty strings, 0, negative numbers);
                                ``engine.info_log`` is a list that receives one
                                ``(statement, repr(parameters), executemany)`` entry per
                                ``before_cursor_execute`` event.  Pass ``path=`` for a file database
                                (use a per-process directory under /dev/shm and remove it).
``observe(engine, built, cache=ENGINE_CACHE)``  run one statement on a fresh connection / Session,
                                roll everything back, return ``(log, outcome)``: the cursor-level log and
                                ``("rows", keys, [repr(row)...])`` / ``("rowcount", n)`` /
                                ``("orm", [dump...])`` / ``("error", ExcClassName, first line)``.
                                ``cache`` = ENGINE_CACHE (use the engine's own cache), ``None`` (disable
                                with the ``compiled_cache=None`` execution option) or a dict / LRUCache
                                (the public ``compiled_cache`` execution option).
``a, b, c, a_main``             the Core tables (``a_main`` = table ``a`` addressed as ``main.a``)
``A, B, C``                     declarative classes mapped to them (A.bs -> B, B.cs -> C, B.a, C.b)
``DIALECTS(names)``             fresh dialect objects by name for compile-level checks

World: ``a(id, x INT NULL, s VARCHAR NULL, n NUMERIC NULL, f BOOLEAN NULL)``,
``b(id, aid -> a.id NULL, y INT NULL, t VARCHAR NULL)``, ``c(id, bid -> b.id NULL, z INT NULL)``.

Not provided (yet): ``core_equivalent()`` of DESIGN §2.6 (only C11/C18/C41 would use it).
"""
from __future__ import annotations

import collections
import itertools
import json
import warnings

from sqlalchemy import and_
from sqlalchemy import exc as sa_exc
from sqlalchemy import bindparam
from sqlalchemy import Boolean
from sqlalchemy import column
from sqlalchemy import Column
from sqlalchemy import create_engine
from sqlalchemy import delete
from sqlalchemy import event
from sqlalchemy import exists
from sqlalchemy import ForeignKey
from sqlalchemy import func
from sqlalchemy import insert
from sqlalchemy import Integer
from sqlalchemy import literal
from sqlalchemy import MetaData
from sqlalchemy import not_
from sqlalchemy import Numeric
from sqlalchemy import or_
from sqlalchemy import select
from sqlalchemy import String
from sqlalchemy import Table
from sqlalchemy import text
from sqlalchemy import tuple_
from sqlalchemy import union
from sqlalchemy import union_all
from sqlalchemy import intersect
from sqlalchemy import except_
from sqlalchemy import update
from sqlalchemy.orm import aliased
from sqlalchemy.orm import contains_eager
from sqlalchemy.orm import declarative_base
from sqlalchemy.orm import defer
from sqlalchemy.orm import immediateload
from sqlalchemy.orm import joinedload
from sqlalchemy.orm import lazyload
from sqlalchemy.orm import load_only
from sqlalchemy.orm import Query
from sqlalchemy.orm import raiseload
from sqlalchemy.orm import relationship
from sqlalchemy.orm import selectinload
from sqlalchemy.orm import Session
from sqlalchemy.orm import subqueryload
from sqlalchemy.orm import undefer
from sqlalchemy.orm import with_loader_criteria

warnings.filterwarnings("ignore", message=".*does \\*not\\* support Decimal.*")

# --------------------------------------------------------------------- world

meta = MetaData()
a = Table(
    "a", meta,
    Column("id", Integer, primary_key=True),
    Column("x", Integer),
    Column("s", String(20)),
    Column("n", Numeric(8, 2)),
    Column("f", Boolean),
)
b = Table(
    "b", meta,
    Column("id", Integer, primary_key=True),
    Column("aid", ForeignKey("a.id")),
    Column("y", Integer),
    Column("t", String(20)),
)
c = Table(
    "c", meta,
    Column("id", Integer, primary_key=True),
    Column("bid", ForeignKey("b.id")),
    Column("z", Integer),
)
_meta_main = MetaData()
a_main = Table(
    "a", _meta_main,
    Column("id", Integer, primary_key=True),
    Column("x", Integer),
    Column("s", String(20)),
    Column("n", Numeric(8, 2)),
    Column("f", Boolean),
    schema="main",
)

Base = declarative_base(metadata=meta)


class A(Base):
    __table__ = a
    bs = relationship("B", back_populates="a", order_by=b.c.id)

    def __repr__(self):
        return "A(%r)" % (self.__dict__.get("id"),)


class B(Base):
    __table__ = b
    a = relationship("A", back_populates="bs")
    cs = relationship("C", back_populates="b", order_by=c.c.id)

    def __repr__(self):
        return "B(%r)" % (self.__dict__.get("id"),)


class C(Base):
    __table__ = c
    b = relationship("B", back_populates="cs")

    def __repr__(self):
        return "C(%r)" % (self.__dict__.get("id"),)


DATA_A = [
    dict(id=1, x=1, s="a", n="1.50", f=True),
    dict(id=2, x=2, s="b", n=None, f=False),
    dict(id=3, x=2, s="b", n="2.00", f=None),
    dict(id=4, x=None, s=None, n="-0.25", f=True),
    dict(id=5, x=0, s="", n="0.00", f=False),
    dict(id=6, x=1, s="A%", n="1.50", f=True),
    dict(id=7, x=-2, s="a", n=None, f=None),
]
DATA_B = [
    dict(id=1, aid=1, y=1, t="u"),
    dict(id=2, aid=1, y=2, t=None),
    dict(id=3, aid=2, y=2, t="u"),
    dict(id=4, aid=3, y=None, t="v"),
    dict(id=5, aid=None, y=0, t=""),
    dict(id=6, aid=6, y=1, t="u"),
    dict(id=7, aid=6, y=1, t="u"),
    dict(id=8, aid=2, y=3, t=None),
]
DATA_C = [
    dict(id=1, bid=1, z=1),
    dict(id=2, bid=1, z=None),
    dict(id=3, bid=3, z=2),
    dict(id=4, bid=None, z=1),
    dict(id=5, bid=6, z=2),
    dict(id=6, bid=8, z=0),
]

ENGINE_CACHE = "engine-cache"


def make_engine(path=None, **kw):
    import decimal

    url = "sqlite://" if path is None else "sqlite:///" + path
    eng = create_engine(url, **kw)
    meta.create_all(eng)
    with eng.begin() as conn:
        conn.execute(a.insert(), [dict(r, n=None if r["n"] is None else decimal.Decimal(r["n"])) for r in DATA_A])
        conn.execute(b.insert(), DATA_B)
        conn.execute(c.insert(), DATA_C)
    log = []
    eng.info_log = log

    @event.listens_for(eng, "before_cursor_execute")
    def _bce(conn, cursor, statement, parameters, context, executemany):
        log.append((statement, repr(parameters), bool(executemany)))

    return eng


def DIALECTS(names=("sqlite", "postgresql", "mysql", "mssql", "oracle")):
    from sqlalchemy.engine import url as _url

    out = []
    for n in names:
        out.append(_url.URL.create(n).get_dialect()())
    return out


# --------------------------------------------------------- feature tables

LONG = "l" * 70 + "_0123456789"  # 81 chars: longer than every dialect's label length but oracle's 128


def _req(feature, *values):
    """requires-clause: the feature carrying it may deviate from its base only while ``feature`` has one of ``values``"""
    allowed = frozenset(values)
    return lambda feats: feats[feature] in allowed


_LIT = ("lit1", (1, 2, 0, None), None)
_LIT2 = ("lit2", (0, 1), None)

SHAPES = collections.OrderedDict()

SHAPES["sel"] = [
    _LIT,
    ("lit1_type", ("auto", "Integer", "String", "Numeric"), None),
    ("cmp", ("eq", "ne", "lt", "is_", "between", "like"), None),
    ("negate", ("no", "yes"), None),
    ("crit2", ("none", "and", "or"), None),
    ("lit2", (0, 1), _req("crit2", "and", "or")),
    ("label", ("none", "q", "r", "long"), None),
    ("alias", ("none", "z", "y"), None),
    ("distinct", ("no", "yes", "on_col"), None),
    ("order", ("id", "desc", "nulls_first", "label", "none"), None),
    ("bindname", ("auto", "x", "a.b", "a b"), None),
    ("lit_exec", ("no", "yes"), None),
    ("prefix", ("none", "/*p*/"), None),
    ("suffix", ("none", "/*s*/"), None),
    ("hint", ("none", "stmt", "table"), None),
    ("for_update", ("none", "plain", "nowait", "of", "skip_locked"), None),
    ("exec_opt", ("none", "stream", "yield_per", "schema_translate"), None),
    ("schema", ("none", "main"), None),
]
SHAPES["page"] = [
    ("limit", (2, 1, 0, "none", "bind", "expr"), None),
    ("offset", ("none", 0, 1, "bind"), None),
    ("fetch", ("none", "plain", "ties", "percent"), None),
    ("order", ("id", "desc", "nulls_first"), None),
    ("distinct", ("no", "yes"), None),
    _LIT,
    ("lit_exec", ("no", "yes"), None),
    ("subq", ("none", "from"), None),
    ("exec_opt", ("none", "yield_per"), None),
]
SHAPES["in"] = [
    ("in_len", (2, 0, 1, 3), None),
    ("in_kind", ("list", "tuple2", "subquery", "bindexp"), None),
    ("negate", ("no", "yes"), None),
    _LIT,
    ("lit1_type", ("auto", "String"), None),
    ("lit_exec", ("no", "yes"), None),
    ("crit2", ("none", "and", "or"), None),
    ("lit2", (0, 1), _req("crit2", "and", "or")),
    ("limit", ("none", 1, 2), None),
]
SHAPES["join"] = [
    ("join", ("inner", "outer", "full"), None),
    ("onclause", ("implicit", "explicit", "compound"), None),
    ("style", ("select_from", "join", "join_from"), None),
    _LIT,
    ("cmp", ("eq", "lt"), None),
    ("lit2", (0, 1), _req("onclause", "compound")),
    ("label", ("q", "r", "none"), None),
    ("alias", ("none", "z", "y"), None),
    ("limit", ("none", 1, 2), None),
    ("distinct", ("no", "yes"), None),
    ("order", ("id", "desc"), None),
]
SHAPES["fromsub"] = [
    ("subq", ("from", "lateral"), None),
    ("alias", ("anon", "z", "y"), None),
    _LIT,
    ("lit2", (3, 2), None),
    ("limit_in", ("none", 1, 2), None),
    ("label", ("none", "q", "r"), None),
    ("nest2", ("no", "yes"), None),
    ("order", ("id", "desc"), None),
]
SHAPES["scalar"] = [
    ("place", ("cols", "where", "order_by"), None),
    ("correlate", ("auto", "explicit", "except"), None),
    ("lit1", (0, 1, None), None),
    ("lit2", (1, 2), None),
    ("label", ("cnt", "q"), None),
    ("cmp", ("eq", "lt"), None),
]
SHAPES["exists"] = [
    ("form", ("exists", "select_exists", "any_in"), None),
    ("negate", ("no", "yes"), None),
    ("correlate", ("auto", "explicit", "except"), None),
    ("lit1", (1, 2, None), None),
    ("crit2", ("none", "and", "or"), None),
    ("lit2", (0, 1), _req("crit2", "and", "or")),
]
SHAPES["cte"] = [
    ("cte", ("plain", "recursive", "nesting", "materialized", "not_materialized"), None),
    ("name", ("c", "z", "anon"), None),
    ("lit1", (0, 1, None), None),
    ("lit2", (3, 2), None),
    ("twice", ("no", "yes"), None),
    ("order", ("id", "desc"), None),
    ("limit", ("none", 1, 2), None),
]
SHAPES["setop"] = [
    ("setop", ("union", "union_all", "intersect", "except"), None),
    ("lit1", (1, 2, None), None),
    ("lit2", (2, 1), None),
    ("order", ("id", "desc", "none"), None),
    ("limit", ("none", 1, 2), None),
    ("as_subq", ("no", "yes"), None),
    ("n_selects", (2, 3), None),
    ("label", ("none", "q"), None),
]
SHAPES["group"] = [
    ("group", ("col_having", "col", "expr", "none"), None),
    ("lit1", (1, 2, 0), None),
    ("lit2", (0, 1, None), None),
    ("func", ("count", "sum", "max"), None),
    ("distinct", ("no", "yes"), None),
    ("order", ("x", "desc", "label", "none"), None),
    ("label", ("n", "q"), None),
]
SHAPES["text"] = [
    ("lit1", (1, 2, None), None),
    ("cols", ("typed", "names", "none"), None),
    ("subq", ("none", "from", "cte"), None),
    ("bindtype", ("none", "Integer", "String"), None),
    ("execparam", ("no", "yes"), None),
]
EXPR_KINDS = (
    "plus", "case", "case_else", "case_value", "cast_int", "cast_str", "type_coerce", "try_cast", "coalesce", "func_generic",
    "func_typed", "concat", "collate", "extract_year", "extract_month", "over_asc", "over_desc", "over_partition", "over_rows",
    "over_range", "filter", "within_group", "distinct_agg", "neg", "is_distinct", "nullif", "literal_column", "bool_and",
    "any_", "bitwise", "json_idx", "tuple_cmp", "labelled_sub",
)
SHAPES["expr"] = [
    ("expr", EXPR_KINDS, None),
    ("lit1", (1, 2, None), None),
    ("lit2", (3, 2), None),
    ("label", ("e", "q", "none"), None),
    ("where", ("no", "yes"), None),
]
SHAPES["upsert"] = [
    ("conflict", ("update", "nothing", "update_where", "nothing_target"), None),
    ("lit1", (1, 2, None), None),
    ("set", ("lit", "excluded", "expr"), None),
    ("lit2", (5, 6), None),
    ("returning", ("none", "cols"), None),
    ("executemany", ("no", "yes"), None),
]
SHAPES["insert"] = [
    ("values", ("single", "multi", "from_select", "default_only", "executemany", "executemany3", "executemany_x", "single_param"), None),
    ("returning", ("none", "cols", "star", "expr", "sort_by_param"), None),
    ("lit1", (1, 2, None), None),
    ("lit1_type", ("auto", "Integer", "String"), None),
    ("lit_s", ("k", "m", None), None),
    ("prefix", ("none", "OR REPLACE"), None),
    ("inline", ("no", "yes"), None),
]
SHAPES["update"] = [
    ("lit1", (1, 2, None), None),
    ("cmp", ("eq", "lt", "in_"), None),
    ("set", ("lit", "expr", "subq", "bind", "two"), None),
    ("lit2", (5, 6), None),
    ("returning", ("none", "cols", "star"), None),
    ("upd_from", ("no", "yes"), None),
    ("ordered", ("no", "yes"), _req("set", "two")),
]
SHAPES["delete"] = [
    ("lit1", (1, 2, None), None),
    ("cmp", ("eq", "lt", "in_"), None),
    ("in_len", (2, 0, 3), _req("cmp", "in_")),
    ("where", ("plain", "exists", "in_subq"), None),
    ("returning", ("none", "cols"), None),
]
SHAPES["params"] = [
    ("src", ("stmt", "exec", "both", "default", "callable", "missing"), None),
    ("val", (1, 2, None), None),
    # conflicting statement-level params() only exist where params() is used at all
    ("place", ("outer", "inner", "cte", "both_same", "both_conflict", "siblings"),
     lambda f: f["place"] not in ("both_conflict", "siblings") or f["src"] in ("stmt", "both")),
    ("val2", (2, 1), _req("place", "both_conflict", "siblings")),
    ("second", ("no", "yes"), None),
    ("expanding", ("no", "yes"), None),
]
SHAPES["orm"] = [
    ("orm_entity", ("entity", "entity_col", "aliased", "cols", "two"), None),
    ("api", ("select", "query"), None),
    ("join", ("none", "inner", "outer"), None),
    ("loader", ("none", "joined", "selectin", "subquery", "immediate", "defer", "load_only", "criteria",
                "raise", "contains_eager", "lazy", "undefer_all"), None),
    ("loader_path", (1, 2), _req("loader", "joined", "selectin", "subquery", "immediate", "defer", "load_only", "raise")),
    ("lit1", (1, 2, None), None),
    ("cmp", ("eq", "lt", "in_"), None),
    ("lit2", (1, 2), _req("loader", "criteria")),
    ("limit", ("none", 1, 2), None),
    ("order", ("id", "desc"), None),
    ("exec_opt", ("none", "yield_per", "populate_existing"), None),
]
SHAPES["ormload"] = [
    ("loader", ("selectin", "joined", "subquery", "immediate", "lazy", "raise"), None),
    ("path", (1, 2, "2mixed", "2other"), None),
    ("sub_opt", ("none", "defer", "load_only", "criteria", "and_", "wildcard"), None),
    ("lit2", (1, 2, 0), _req("sub_opt", "criteria", "and_")),
    ("entity", ("plain", "aliased"), None),
    ("lit1", (1, 2, None), None),
    ("limit", ("none", 2), None),
    ("populate", ("no", "yes"), None),
]
SHAPES["ormdml"] = [
    ("kind", ("update", "delete", "insert", "insert_bulk"), None),
    ("lit1", (1, 2, None), None),
    ("lit2", (5, 6), None),
    ("cmp", ("eq", "lt"), None),
    ("returning", ("none", "entity", "cols"), None),
    ("sync", ("auto", "fetch", "evaluate", "false"), None),
]

ORM_SHAPES = ("orm", "ormload", "ormdml")
DML_SHAPES = ("upsert", "insert", "update", "delete", "ormdml")


def base(shape):
    return collections.OrderedDict((f, vals[0]) for f, vals, _ in SHAPES[shape])


class NotConstructible(Exception):
    """the constructors refuse this feature assignment (it is then not a family member)"""


def valid(shape, feats):
    return _valid(shape, feats)


def _valid(shape, feats):
    b0 = base(shape)
    for f, vals, req in SHAPES[shape]:
        if req is not None and feats[f] != b0[f] and not req(feats):
            return False
    return True


def neighbours(shape, d):
    """all valid assignments at Hamming distance <= d from the base, simplest first"""
    table = SHAPES[shape]
    b0 = base(shape)
    yield collections.OrderedDict(b0)
    for k in range(1, d + 1):
        for idxs in itertools.combinations(range(len(table)), k):
            choices = [table[i][1][1:] for i in idxs]
            for combo in itertools.product(*choices):
                f = collections.OrderedDict(b0)
                for i, v in zip(idxs, combo):
                    f[table[i][0]] = v
                if _valid(shape, f):
                    yield f


_FAMILY = {}


def family(d, shapes=None):
    """[(shape, feats)] within distance d; assignments the constructors refuse are left out"""
    out = []
    for sh in shapes or SHAPES:
        if (sh, d) not in _FAMILY:
            members = []
            for f in neighbours(sh, d):
                try:
                    build_exec(sh, f)
                except NotConstructible:
                    continue
                members.append((sh, f))
            _FAMILY[(sh, d)] = members
        out.extend((sh, collections.OrderedDict(f)) for sh, f in _FAMILY[(sh, d)])
    return out


def distance(shape, f1, f2):
    return sum(1 for f, _, _ in SHAPES[shape] if f1[f] != f2[f])


def sid(shape, feats):
    b0 = base(shape)
    parts = ["%s=%s" % (f, json.dumps(feats[f])) for f, _, _ in SHAPES[shape] if feats[f] != b0[f]]
    return "%s[%s]" % (shape, ",".join(parts))


def parse_sid(s):
    shape, rest = s.split("[", 1)
    rest = rest[:-1]
    feats = base(shape)
    if rest:
        # values are JSON scalars without commas except inside strings; split on ',<name>='
        names = [f for f, _, _ in SHAPES[shape]]
        pos = []
        for n in names:
            for start in ("%s=" % n,):
                if rest.startswith(start):
                    pos.append((0, n))
                i = rest.find("," + start)
                while i != -1:
                    pos.append((i + 1, n))
                    i = rest.find("," + start, i + 1)
        pos.sort()
        for j, (p, n) in enumerate(pos):
            end = pos[j + 1][0] - 1 if j + 1 < len(pos) else len(rest)
            feats[n] = json.loads(rest[p + len(n) + 1:end])
    return shape, feats


# ------------------------------------------------------------- builders

Built = collections.namedtuple("Built", "stmt params route unique preload")

_TYPES = {"Integer": Integer, "String": String, "Numeric": lambda: Numeric(10, 2)}


def _lit(v, f, name_feature="bindname", force_bind=False):
    """the literal ``lit1`` as the features want it bound"""
    tname = f.get("lit1_type", "auto")
    typ = None if tname == "auto" else _TYPES[tname]()
    name = f.get(name_feature, "auto")
    le = f.get("lit_exec", "no") == "yes"
    if name == "auto" and typ is None and not le:
        if v is None and force_bind:
            # "col < NULL": a plain None is refused by the operators, a bound NULL is well-formed
            return bindparam(None, None, unique=True, type_=Integer())
        return v
    kw = {}
    if typ is not None:
        kw["type_"] = typ
    if le:
        kw["literal_execute"] = True
    if name == "auto":
        return bindparam(None, v, unique=True, **kw)
    return bindparam(name, v, **kw)


_LIKE = {1: "a%", 2: "b%", 0: "%", None: None}


def _crit(col, scol, idcol, f):
    v = f["lit1"]
    cmp_ = f.get("cmp", "eq")
    L = _lit(v, f, force_bind=cmp_ in ("lt", "between"))
    if cmp_ == "eq":
        cr = col == L
    elif cmp_ == "ne":
        cr = col != L
    elif cmp_ == "lt":
        cr = col < L
    elif cmp_ == "is_":
        cr = col.is_(L)
    elif cmp_ == "between":
        cr = col.between(L, 2)
    elif cmp_ == "like":
        pat = _lit(_LIKE[v], f)
        if pat is None:
            pat = bindparam(None, None, unique=True, type_=String())
        cr = scol.like(pat)
    elif cmp_ == "in_":
        cr = col.in_([v, 7] if v is not None else [7, 0])
    else:
        raise AssertionError(cmp_)
    if f.get("negate", "no") == "yes":
        cr = not_(cr)
    c2 = f.get("crit2", "none")
    if c2 == "and":
        cr = and_(cr, idcol > f["lit2"])
    elif c2 == "or":
        cr = or_(cr, idcol > f["lit2"])
    return cr


def _label(col, f, default=None):
    lb = f.get("label", "none")
    if lb == "none":
        return col if default is None else col.label(default)
    return col.label(LONG if lb == "long" else lb)


def _ge(col, v):
    """col >= v; a plain None (not comparable with >=) selects the NULL rows instead"""
    return col.is_(None) if v is None else col >= v


def _cmpv(col, cmp_, v, inlist=None):
    if cmp_ == "eq":
        return col == v
    if cmp_ == "lt":
        return col < (v if v is not None else bindparam(None, None, unique=True, type_=Integer()))
    return col.in_(inlist if inlist is not None else [v, 0])


def _limit(s, v):
    if v == "none":
        return s
    if v == "bind":
        return s.limit(bindparam("lim", 2))
    if v == "expr":
        return s.limit(literal(1) + 1)
    return s.limit(v)


def _b_sel(f):
    t = a_main if f["schema"] == "main" else a
    if f["alias"] != "none":
        t = t.alias(f["alias"])
    xcol = _label(t.c.x, f)
    s = select(t.c.id, xcol).where(_crit(t.c.x, t.c.s, t.c.id, f))
    o = f["order"]
    if o == "id":
        s = s.order_by(t.c.id)
    elif o == "desc":
        s = s.order_by(t.c.x.desc(), t.c.id)
    elif o == "nulls_first":
        s = s.order_by(t.c.x.desc().nulls_first(), t.c.id)
    elif o == "label":
        s = s.order_by(xcol.name if f["label"] != "none" else "x", t.c.id)
    if f["distinct"] == "yes":
        s = s.distinct()
    elif f["distinct"] == "on_col":
        s = s.distinct(t.c.x)
    if f["prefix"] != "none":
        s = s.prefix_with(f["prefix"])
    if f["suffix"] != "none":
        s = s.suffix_with(f["suffix"])
    if f["hint"] == "stmt":
        s = s.with_statement_hint("/*sh*/")
    elif f["hint"] == "table":
        s = s.with_hint(t, "/*th*/", "*")
    fu = f["for_update"]
    if fu == "plain":
        s = s.with_for_update()
    elif fu == "nowait":
        s = s.with_for_update(nowait=True)
    elif fu == "of":
        s = s.with_for_update(of=t.c.id, read=True)
    elif fu == "skip_locked":
        s = s.with_for_update(skip_locked=True, key_share=True)
    eo = f["exec_opt"]
    if eo == "stream":
        s = s.execution_options(stream_results=True)
    elif eo == "yield_per":
        s = s.execution_options(yield_per=2)
    elif eo == "schema_translate":
        s = s.execution_options(schema_translate_map={None: "main"})
    return Built(s, None, "core", False, False)


def _b_page(f):
    s = select(a.c.id, a.c.x).where(_ge(a.c.id, _lit(f["lit1"], f)))
    o = f["order"]
    if o == "id":
        s = s.order_by(a.c.id)
    elif o == "desc":
        s = s.order_by(a.c.x.desc(), a.c.id.desc())
    else:
        s = s.order_by(a.c.x.nulls_first(), a.c.id)
    if f["fetch"] == "none":
        s = _limit(s, f["limit"])
    else:
        n = f["limit"] if isinstance(f["limit"], int) else 2
        s = s.fetch(n, with_ties=f["fetch"] == "ties", percent=f["fetch"] == "percent")
    off = f["offset"]
    if off == "bind":
        s = s.offset(bindparam("off", 1))
    elif off != "none":
        s = s.offset(off)
    if f["distinct"] == "yes":
        s = s.distinct()
    if f["subq"] == "from":
        sq = s.subquery("pg")
        s = select(sq.c.id, sq.c.x).order_by(sq.c.id)
    if f["exec_opt"] == "yield_per":
        s = s.execution_options(yield_per=1)
    return Built(s, None, "core", False, False)


def _b_in(f):
    n = f["in_len"]
    v = f["lit1"]
    kind = f["in_kind"]
    params = None
    tname = f["lit1_type"]
    if kind == "list":
        vals = [v, 2, 0][:n]
        if tname == "String":
            cr = a.c.s.in_(["a" if v == 1 else ("b" if v == 2 else None), "", "A%"][:n])
        else:
            cr = a.c.x.in_(vals)
        if f["lit_exec"] == "yes":
            # an expanding bind rendered in place
            cr = (a.c.s if tname == "String" else a.c.x).in_(
                bindparam(None, ["a", "", "A%"][:n] if tname == "String" else vals, unique=True, expanding=True, literal_execute=True)
            )
    elif kind == "tuple2":
        vals = [(1, v), (2, 2), (5, 0)][:n]
        cr = tuple_(a.c.id, a.c.x).in_(vals)
    elif kind == "subquery":
        sub = select(b.c.aid).where(b.c.y.in_([v, 2, 0][:n]))
        cr = a.c.id.in_(sub)
    else:  # bindexp: value list supplied at execution time
        cr = a.c.x.in_(bindparam("vals", expanding=True))
        params = {"vals": [v, 2, 0][:n]}
    if f["negate"] == "yes":
        cr = not_(cr)
    if f["crit2"] == "and":
        cr = and_(cr, a.c.id > f["lit2"])
    elif f["crit2"] == "or":
        cr = or_(cr, a.c.id > f["lit2"])
    s = select(a.c.id, a.c.s).where(cr).order_by(a.c.id)
    s = _limit(s, f["limit"])
    return Built(s, params, "core", False, False)


def _b_join(f):
    left = a
    right = b.alias(f["alias"]) if f["alias"] != "none" else b
    oc = f["onclause"]
    on = None
    if oc == "explicit":
        on = left.c.id == right.c.aid
    elif oc == "compound":
        on = and_(left.c.id == right.c.aid, right.c.y > f["lit2"])
    kw = dict(isouter=f["join"] == "outer", full=f["join"] == "full")
    cols = [left.c.id, _label(right.c.y, f)]
    st = f["style"]
    if st == "select_from":
        s = select(*cols).select_from(left.join(right, on, **kw))
    elif st == "join":
        s = select(*cols).join(right, on, **kw)
    else:
        s = select(*cols).join_from(left, right, on, **kw)
    s = s.where(_crit(left.c.x, left.c.s, left.c.id, f))
    if f["order"] == "id":
        s = s.order_by(left.c.id, right.c.id)
    else:
        s = s.order_by(left.c.id.desc(), right.c.id.desc())
    s = _limit(s, f["limit"])
    if f["distinct"] == "yes":
        s = s.distinct()
    return Built(s, None, "core", False, False)


def _b_fromsub(f):
    name = None if f["alias"] == "anon" else f["alias"]
    if f["subq"] == "from":
        inner = select(a.c.id, _label(a.c.x, f, "x")).where(_ge(a.c.x, f["lit1"])).order_by(a.c.id)
        inner = _limit(inner, f["limit_in"])
        sq = inner.subquery(name)
        xname = inner.selected_columns.keys()[1]
        if f["nest2"] == "yes":
            sq = select(sq.c.id, sq.c[xname]).where(sq.c.id > 0).subquery("outer2")
        s = select(sq.c.id, sq.c[xname]).where(sq.c[xname] < f["lit2"])
        s = s.order_by(sq.c.id if f["order"] == "id" else sq.c.id.desc())
    else:
        inner = select(_label(a.c.x, f, "x")).where(a.c.id == b.c.aid, _ge(a.c.x, f["lit1"]))
        inner = _limit(inner, f["limit_in"])
        lat = inner.lateral(name)
        xname = inner.selected_columns.keys()[0]
        s = select(b.c.id, lat.c[xname]).where(b.c.y < f["lit2"])
        s = s.order_by(b.c.id if f["order"] == "id" else b.c.id.desc())
    return Built(s, None, "core", False, False)


def _corr(sub, f, outer_table, inner_table):
    co = f["correlate"]
    if co == "explicit":
        return sub.correlate(outer_table)
    if co == "except":
        return sub.correlate_except(inner_table)
    return sub


def _b_scalar(f):
    sub = select(func.count(b.c.id)).where(b.c.aid == a.c.id)
    if f["lit1"] is None:
        sub = sub.where(b.c.y.is_(None))
    else:
        sub = sub.where(b.c.y > f["lit1"])
    sub = _corr(sub, f, a, b).scalar_subquery()
    main = (a.c.x == f["lit2"]) if f["cmp"] == "eq" else (a.c.x < f["lit2"])
    pl = f["place"]
    if pl == "cols":
        s = select(a.c.id, sub.label(f["label"])).where(main).order_by(a.c.id)
    elif pl == "where":
        s = select(a.c.id, a.c.x.label(f["label"])).where(main, sub > 0).order_by(a.c.id)
    else:
        s = select(a.c.id, a.c.x.label(f["label"])).where(main).order_by(sub, a.c.id)
    return Built(s, None, "core", False, False)


def _b_exists(f):
    v = f["lit1"]
    inner_crit = [b.c.aid == a.c.id, b.c.y == v]
    form = f["form"]
    if form == "exists":
        sub = exists().where(*inner_crit)
        cr = _corr(sub, f, a, b)
    elif form == "select_exists":
        cr = _corr(select(b.c.id).where(*inner_crit), f, a, b).exists()
    else:
        cr = a.c.x.in_(_corr(select(b.c.y).where(*inner_crit), f, a, b))
    if f["negate"] == "yes":
        cr = ~cr
    if f["crit2"] == "and":
        cr = and_(cr, a.c.id > f["lit2"])
    elif f["crit2"] == "or":
        cr = or_(cr, a.c.id > f["lit2"])
    return Built(select(a.c.id).where(cr).order_by(a.c.id), None, "core", False, False)


def _b_cte(f):
    name = None if f["name"] == "anon" else f["name"]
    kind = f["cte"]
    v1 = f["lit1"]
    if kind == "recursive":
        root = select(literal(0 if v1 is None else v1).label("n"), literal(v1).label("m"))
        ct = root.cte(name, recursive=True)
        ct = ct.union_all(select(ct.c.n + 1, ct.c.m).where(ct.c.n < f["lit2"]))
        idc, xc = ct.c.n, ct.c.m
    else:
        inner = select(a.c.id, a.c.x).where(_ge(a.c.x, v1))
        ct = inner.cte(name, nesting=kind == "nesting")
        if kind == "materialized":
            ct = ct.prefix_with("MATERIALIZED")
        elif kind == "not_materialized":
            ct = ct.prefix_with("NOT MATERIALIZED")
        idc, xc = ct.c.id, ct.c.x
    if f["twice"] == "yes":
        c2 = ct.alias("c2")
        s = select(idc, c2.c[xc.name]).where(idc == c2.c[idc.name], xc < f["lit2"])
    else:
        s = select(idc, xc).where(xc < f["lit2"])
    s = s.order_by(idc if f["order"] == "id" else idc.desc())
    s = _limit(s, f["limit"])
    return Built(s, None, "core", False, False)


def _b_setop(f):
    fn = {"union": union, "union_all": union_all, "intersect": intersect, "except": except_}[f["setop"]]
    xc = a.c.x if f["label"] == "none" else a.c.x.label(f["label"])
    s1 = select(a.c.id, xc).where(a.c.x == f["lit1"])
    s2 = select(a.c.id, a.c.x).where(a.c.x >= f["lit2"])
    parts = [s1, s2]
    if f["n_selects"] == 3:
        parts.append(select(b.c.id, b.c.y).where(b.c.y == f["lit1"]))
    u = fn(*parts)
    if f["order"] == "id":
        u = u.order_by(u.selected_columns.id)
    elif f["order"] == "desc":
        u = u.order_by(u.selected_columns.id.desc())
    u = _limit(u, f["limit"])
    if f["as_subq"] == "yes":
        sq = u.subquery("u")
        u = select(sq.c.id).order_by(sq.c.id)
    return Built(u, None, "core", False, False)


def _b_group(f):
    fn = {"count": func.count, "sum": func.sum, "max": func.max}[f["func"]]
    agg = fn(a.c.id).label(f["label"])
    g = f["group"]
    key = a.c.x
    if g == "expr":
        key = (a.c.x + 1).label("k")
    if g == "none":
        s = select(agg)
    else:
        s = select(key, agg).group_by(a.c.x + 1 if g == "expr" else a.c.x)
    if f["lit2"] is None:
        s = s.where(a.c.x.is_not(None))
    else:
        s = s.where(a.c.x >= f["lit2"])
    if g == "col_having":
        s = s.having(fn(a.c.id) > f["lit1"])
    else:
        s = s.where(a.c.id > f["lit1"])
    o = f["order"]
    if g != "none":
        if o == "x":
            s = s.order_by(key)
        elif o == "desc":
            s = s.order_by(key.desc())
        elif o == "label":
            s = s.order_by(f["label"], key)
    if f["distinct"] == "yes":
        s = s.distinct()
    return Built(s, None, "core", False, False)


def _b_text(f):
    t = text("select id, x, s from a where x >= :p or :p is null order by id")
    params = None
    bt = f["bindtype"]
    if f["execparam"] == "yes":
        params = {"p": f["lit1"]}
        if bt != "none":
            t = t.bindparams(bindparam("p", type_=_TYPES[bt]()))
    else:
        if bt != "none":
            t = t.bindparams(bindparam("p", f["lit1"], type_=_TYPES[bt]()))
        else:
            t = t.bindparams(p=f["lit1"])
    cols = f["cols"]
    if cols == "typed":
        ts = t.columns(column("id", Integer), column("x", Integer), column("s", String))
    elif cols == "names":
        ts = t.columns(column("id"), column("x"), column("s"))
    else:
        ts = t
    sq = f["subq"]
    if sq == "none" or cols == "none":
        return Built(ts, params, "core", False, False)
    if sq == "from":
        q = ts.subquery("tt")
    else:
        q = ts.cte("tt")
    s = select(q.c.id, q.c.x).where(q.c.id > 1).order_by(q.c.id)
    return Built(s, params, "core", False, False)


def _b_expr(f):
    from sqlalchemy import case, cast, type_coerce, try_cast, extract, collate, distinct, literal_column, any_
    from sqlalchemy import JSON, Date

    k = f["expr"]
    v, v2 = f["lit1"], f["lit2"]
    x, sc, n, idc = a.c.x, a.c.s, a.c.n, a.c.id
    if k == "plus":
        e = x + v
    elif k == "case":
        e = case((x == v, "one"), (x > v2, "big"))
    elif k == "case_else":
        e = case((x == v, "one"), (x > v2, "big"), else_="other")
    elif k == "case_value":
        e = case({v2: "three", 0: "zero"}, value=x, else_=literal(v, Integer).cast(String))
    elif k == "cast_int":
        e = cast(sc, Integer) + (v or 0)
    elif k == "cast_str":
        e = cast(x + (v or 0), String(10))
    elif k == "type_coerce":
        e = type_coerce(x + (v or 0), String)
    elif k == "try_cast":
        e = try_cast(sc, Integer)
    elif k == "coalesce":
        e = func.coalesce(x, v, v2)
    elif k == "func_generic":
        e = func.abs(x - v2) + func.length(func.ifnull(sc, "zz")) + (v or 0)
    elif k == "func_typed":
        e = func.round(n * v2, type_=Integer) if v is None else func.round(n * v2 + v, type_=Numeric(8, 1))
    elif k == "concat":
        e = sc + "-" + func.coalesce(sc, str(v)) + str(v2)
    elif k == "collate":
        e = collate(sc, "NOCASE") == ("a" if v == 1 else "A%")
    elif k in ("extract_year", "extract_month"):
        e = extract("year" if k == "extract_year" else "month", cast(literal("2020-0%d-01" % v2), Date)) + (v or 0)
    elif k == "over_asc":
        e = func.row_number().over(order_by=(x, idc))
    elif k == "over_desc":
        e = func.row_number().over(order_by=(x.desc(), idc))
    elif k == "over_partition":
        e = func.count(idc).over(partition_by=x)
    elif k == "over_rows":
        e = func.sum(idc).over(order_by=idc, rows=(-(v or 0), v2))
    elif k == "over_range":
        e = func.sum(idc).over(order_by=idc, range_=(-(v or 0), v2))
    elif k == "filter":
        e = func.count(idc).filter(x == v).over(partition_by=sc)
    elif k == "within_group":
        e = func.percentile_cont(0.5).within_group(x.desc())
    elif k == "distinct_agg":
        e = func.count(distinct(x)).over()
    elif k == "neg":
        e = -(x - v2) + (v or 0)
    elif k == "is_distinct":
        e = x.is_distinct_from(v)
    elif k == "nullif":
        e = func.nullif(x, v)
    elif k == "literal_column":
        e = literal_column("a.x + %d" % v2, type_=Integer) + (v or 0)
    elif k == "bool_and":
        e = and_(x == v, or_(sc == "a", idc < v2))
    elif k == "any_":
        e = x == any_(select(b.c.y).where(b.c.y > (v or 0)).scalar_subquery())
    elif k == "bitwise":
        e = x.bitwise_and(v2) + x.bitwise_or(v or 0)
    elif k == "json_idx":
        e = cast(literal('{"k": [1, 2, 3]}'), JSON)["k"][v or 0].as_integer() + v2
    elif k == "tuple_cmp":
        e = tuple_(idc, x) == tuple_(v2, v)
    elif k == "labelled_sub":
        e = select(func.max(b.c.y) + (v or 0)).where(b.c.aid == idc).scalar_subquery()
    else:
        raise AssertionError(k)
    if f["label"] != "none":
        e = e.label(f["label"])
    s = select(idc, e).order_by(idc)
    if f["where"] == "yes":
        s = s.where(idc > v2 - 2)
    return Built(s, None, "core", False, False)


def _b_upsert(f):
    from sqlalchemy.dialects.sqlite import insert as sqlite_insert

    v = f["lit1"]
    s = sqlite_insert(a)
    params = None
    if f["executemany"] == "yes":
        params = [dict(id=1, x=v, s="u1"), dict(id=50, x=2, s="u2")]
    else:
        s = s.values(id=1, x=v, s="u1")
    st = f["set"]
    if st == "lit":
        set_ = dict(x=f["lit2"])
    elif st == "excluded":
        set_ = dict(x=s.excluded.x, s=s.excluded.s)
    else:
        set_ = dict(x=a.c.x + f["lit2"])
    cf = f["conflict"]
    if cf == "update":
        s = s.on_conflict_do_update(index_elements=[a.c.id], set_=set_)
    elif cf == "update_where":
        s = s.on_conflict_do_update(index_elements=["id"], set_=set_, where=a.c.x < f["lit2"])
    elif cf == "nothing":
        s = s.on_conflict_do_nothing()
    else:
        s = s.on_conflict_do_nothing(index_elements=[a.c.id])
    if f["returning"] == "cols":
        s = s.returning(a.c.id, a.c.x, a.c.s)
    return Built(s, params, "core", False, False)


def _b_insert(f):
    v = f["lit1"]
    x = _lit(v, f)
    sv = f["lit_s"]
    kind = f["values"]
    params = None
    s = insert(a)
    if kind == "single":
        s = s.values(x=x, s=sv)
    elif kind == "multi":
        s = s.values([dict(x=v, s=sv), dict(x=2, s="w")])
    elif kind == "from_select":
        s = s.from_select(["x", "s"], select(b.c.y, b.c.t).where(b.c.y == x, b.c.t != sv))
    elif kind == "default_only":
        s = s.values()
    elif kind == "executemany":
        params = [dict(x=v, s=sv), dict(x=2, s="w")]
    elif kind == "executemany3":
        params = [dict(x=v, s=sv), dict(x=2, s="w"), dict(x=None, s=None)]
    elif kind == "executemany_x":  # same statement as "executemany", other parameter keys
        params = [dict(x=v), dict(x=2)]
    else:  # one parameter set at execution time
        params = dict(x=v, s=sv)
    r = f["returning"]
    if r == "cols":
        s = s.returning(a.c.id, a.c.x, a.c.s)
    elif r == "star":
        s = s.returning(a)
    elif r == "expr":
        s = s.returning(a.c.id, (a.c.x + 1).label("x1"), a.c.n)
    elif r == "sort_by_param":
        s = s.returning(a.c.id, a.c.x, sort_by_parameter_order=True)
    if f["prefix"] != "none":
        s = s.prefix_with(f["prefix"])
    if f["inline"] == "yes":
        s = s.inline()
    return Built(s, params, "core", False, False)


def _b_update(f):
    v = f["lit1"]
    cmp_ = f["cmp"]
    cr = _cmpv(a.c.x, cmp_, v)
    s = update(a)
    if f["upd_from"] == "yes":
        s = s.where(a.c.id == b.c.aid, b.c.y == v)
    else:
        s = s.where(cr)
    params = None
    st = f["set"]
    if st == "lit":
        s = s.values(x=f["lit2"])
    elif st == "expr":
        s = s.values(x=a.c.x + f["lit2"])
    elif st == "subq":
        s = s.values(x=select(func.max(b.c.y) + f["lit2"]).where(b.c.aid == a.c.id).scalar_subquery())
    elif st == "bind":
        s = s.values(x=bindparam("newx"))
        params = {"newx": f["lit2"]}
    else:
        if f["ordered"] == "yes":
            s = s.ordered_values((a.c.s, "w"), (a.c.x, f["lit2"]))
        else:
            s = s.values(x=f["lit2"], s="w")
    r = f["returning"]
    if r == "cols":
        s = s.returning(a.c.id, a.c.x)
    elif r == "star":
        s = s.returning(a)
    return Built(s, params, "core", False, False)


def _b_delete(f):
    v = f["lit1"]
    cmp_ = f["cmp"]
    cr = _cmpv(c.c.z, cmp_, v, [v, 0, 2][: f["in_len"]])
    w = f["where"]
    if w == "exists":
        cr = and_(cr, exists().where(b.c.id == c.c.bid, b.c.y > 0))
    elif w == "in_subq":
        cr = and_(cr, c.c.bid.in_(select(b.c.id).where(b.c.y > 0)))
    s = delete(c).where(cr)
    if f["returning"] == "cols":
        s = s.returning(c.c.id, c.c.z)
    return Built(s, None, "core", False, False)


def _b_params(f):
    src = f["src"]
    v = f["val"]
    place = f["place"]
    exp = f["expanding"] == "yes"

    def bp(name="p"):
        if src == "missing":  # required, and no value is supplied anywhere: the execution must be refused
            return bindparam(name, expanding=exp)
        if src == "default":
            return bindparam(name, [v, 0] if exp else v, expanding=exp)
        if src == "callable":
            return bindparam(name, callable_=(lambda: [v, 0]) if exp else (lambda: v), expanding=exp)
        return bindparam(name, expanding=exp)

    def cmp_(col, p):
        return col.in_(p) if exp else (col == p)

    val = [v, 0] if exp else v
    val2 = [f["val2"], 0] if exp else f["val2"]
    if place == "outer":
        s = select(a.c.id, a.c.x).where(cmp_(a.c.x, bp()))
    elif place == "inner":
        sub = select(b.c.aid).where(cmp_(b.c.y, bp()))
        if src in ("stmt", "both"):
            sub = sub.params(p=val)
        s = select(a.c.id, a.c.x).where(a.c.id.in_(sub))
    elif place == "cte":
        ct = select(a.c.id, a.c.x).where(cmp_(a.c.x, bp()))
        if src in ("stmt", "both"):
            ct = ct.params(p=val)
        ct = ct.cte("pc")
        s = select(ct.c.id, ct.c.x)
    elif place == "both_same":
        sub = select(b.c.aid).where(cmp_(b.c.y, bp()))
        s = select(a.c.id, a.c.x).where(a.c.id.in_(sub), cmp_(a.c.x, bp()))
    elif place == "both_conflict":
        # inner statement carries its own .params() for the same name as the outer one
        sub = select(b.c.aid).where(cmp_(b.c.y, bp()))
        if src in ("stmt", "both"):
            sub = sub.params(p=val2)
        s = select(a.c.id, a.c.x).where(a.c.id.in_(sub), cmp_(a.c.x, bp()))
    else:  # siblings: two sub-statements, each with .params() for the same name
        sub1 = select(b.c.aid).where(cmp_(b.c.y, bp()))
        sub2 = select(c.c.bid).where(cmp_(c.c.z, bp()))
        if src in ("stmt", "both"):
            sub1 = sub1.params(p=val)
            sub2 = sub2.params(p=val2)
        s = select(a.c.id, a.c.x).where(or_(a.c.id.in_(sub1), a.c.id.in_(sub2)))
    if f["second"] == "yes":
        s = s.where(a.c.id > bindparam("p2", 0))
    s = s.order_by(s.selected_columns.id)
    params = None
    if src in ("stmt", "both") and place in ("outer", "both_same", "both_conflict"):
        s = s.params(p=val)
    if src == "both":
        # execution-time value overrides the statement-level one
        alt = {1: 2, 2: 1, None: 0}[v]
        params = {"p": [alt, 0] if exp else alt}
    elif src == "exec":
        params = {"p": val}
    if f["second"] == "yes" and src in ("exec", "both"):
        params["p2"] = 1
    return Built(s, params, "core", False, False)


def _b_orm(f):
    ent = f["orm_entity"]
    E = aliased(A, name="a_1x") if ent == "aliased" else A
    if ent == "entity" or ent == "aliased":
        cols = [E]
    elif ent == "entity_col":
        cols = [E, E.x]
    elif ent == "cols":
        cols = [E.id, E.x, E.n, E.f]
    else:
        cols = [E, B]
    v = f["lit1"]
    cmp_ = f["cmp"]
    cr = _cmpv(E.x, cmp_, v)
    j = f["join"]
    ld = f["loader"]
    path2 = f["loader_path"] == 2
    opts = []
    unique = False
    if ld in ("joined", "selectin", "subquery", "immediate", "raise", "lazy"):
        fn = dict(joined=joinedload, selectin=selectinload, subquery=subqueryload, immediate=immediateload,
                  raise_=raiseload, lazy=lazyload)[ld if ld != "raise" else "raise_"]
        o = fn(E.bs)
        if path2:
            o = getattr(o, fn.__name__)(B.cs)
        opts.append(o)
        unique = ld == "joined"
    elif ld == "defer":
        opts.append(defer(E.s))
        if path2:
            opts.append(selectinload(E.bs).defer(B.t))
    elif ld == "load_only":
        opts.append(load_only(E.x))
        if path2:
            opts.append(selectinload(E.bs).load_only(B.y))
    elif ld == "criteria":
        opts.append(selectinload(E.bs))
        opts.append(with_loader_criteria(B, B.y >= f["lit2"]))
    elif ld == "undefer_all":
        opts.append(undefer(E.n))
        opts.append(defer(E.f))
    if f["api"] == "query":
        q = Query(cols)
        if ent == "two" and j == "none":
            q = q.join(E.bs)
        elif j != "none":
            q = q.join(E.bs, isouter=j == "outer")
        if ld == "contains_eager":
            if j == "none" and ent != "two":
                q = q.join(E.bs)
            opts.append(contains_eager(E.bs))
            unique = True
        q = q.filter(cr)
        q = q.order_by(E.id if f["order"] == "id" else E.id.desc())
        if j != "none" or ent == "two" or ld == "contains_eager":
            q = q.order_by(B.id)
        if f["limit"] != "none":
            q = q.limit(f["limit"])
        if opts:
            q = q.options(*opts)
        eo = f["exec_opt"]
        if eo == "yield_per":
            q = q.execution_options(yield_per=2)
        elif eo == "populate_existing":
            q = q.execution_options(populate_existing=True)
        return Built(q, None, "query", unique, False)
    s = select(*cols)
    if ent == "two" and j == "none":
        s = s.join(E.bs)
    elif j != "none":
        s = s.join(E.bs, isouter=j == "outer")
    if ld == "contains_eager":
        if j == "none" and ent != "two":
            s = s.join(E.bs)
        opts.append(contains_eager(E.bs))
        unique = True
    s = s.where(cr)
    s = s.order_by(E.id if f["order"] == "id" else E.id.desc())
    if j != "none" or ent == "two" or ld == "contains_eager":
        s = s.order_by(B.id)
    if f["limit"] != "none":
        s = s.limit(f["limit"])
    if opts:
        s = s.options(*opts)
    eo = f["exec_opt"]
    if eo == "yield_per":
        s = s.execution_options(yield_per=2)
    elif eo == "populate_existing":
        s = s.execution_options(populate_existing=True)
    return Built(s, None, "orm", unique, False)


def _b_ormload(f):
    from sqlalchemy.orm import Load

    E = aliased(A, name="a_ld") if f["entity"] == "aliased" else A
    fns = dict(selectin=selectinload, joined=joinedload, subquery=subqueryload, immediate=immediateload, lazy=lazyload)
    fns["raise"] = raiseload
    fn = fns[f["loader"]]
    so = f["sub_opt"]
    target = E.bs.and_(B.y >= f["lit2"]) if so == "and_" else E.bs
    o = fn(target)
    pth = f["path"]
    if pth == 2:
        o = getattr(o, fn.__name__)(B.cs)
    elif pth == "2mixed":
        o = o.joinedload(B.cs) if f["loader"] != "joined" else o.selectinload(B.cs)
    elif pth == "2other":
        o = getattr(o, fn.__name__)(B.a)
    opts = [o]
    if so == "defer":
        opts = [o.defer(B.t)]
    elif so == "load_only":
        opts = [o.load_only(B.y)]
    elif so == "criteria":
        opts.append(with_loader_criteria(B, B.y >= f["lit2"]))
    elif so == "wildcard":
        opts.append(Load(E).defer("*"))
    s = select(E).where(_cmpv(E.x, "eq", f["lit1"])).order_by(E.id).options(*opts)
    if f["limit"] != "none":
        s = s.limit(f["limit"])
    if f["populate"] == "yes":
        s = s.execution_options(populate_existing=True)
    return Built(s, None, "orm", f["loader"] == "joined" or pth == "2mixed", False)


def _b_ormdml(f):
    kind = f["kind"]
    v = f["lit1"]
    cr = _cmpv(A.x, f["cmp"], v)
    params = None
    r = f["returning"]
    if kind == "update":
        s = update(A).where(cr).values(x=f["lit2"], s=A.s + "!")
    elif kind == "delete":
        s = delete(A).where(cr)
    elif kind == "insert":
        s = insert(A).values(x=v, s="n%d" % f["lit2"])
    else:
        s = insert(A)
        params = [dict(x=v, s="n%d" % f["lit2"]), dict(x=7, s=None)]
    if r == "entity":
        s = s.returning(A)
    elif r == "cols":
        s = s.returning(A.id, A.x)
    sy = f["sync"]
    if sy != "auto" and kind in ("update", "delete"):
        s = s.execution_options(synchronize_session=False if sy == "false" else sy)
    return Built(s, params, "orm", False, kind in ("update", "delete"))


_BUILDERS = dict(
    sel=_b_sel, page=_b_page, join=_b_join, fromsub=_b_fromsub, scalar=_b_scalar, exists=_b_exists, cte=_b_cte,
    setop=_b_setop, group=_b_group, text=_b_text, expr=_b_expr, upsert=_b_upsert, insert=_b_insert, update=_b_update, delete=_b_delete,
    params=_b_params, orm=_b_orm, ormload=_b_ormload, ormdml=_b_ormdml,
)
_BUILDERS["in"] = _b_in


def build_exec(shape, feats):
    try:
        return _BUILDERS[shape](feats)
    except (sa_exc.ArgumentError, sa_exc.InvalidRequestError) as e:
        raise NotConstructible("%s: %s" % (sid(shape, feats), e)) from e


def build(shape, feats):
    return _BUILDERS[shape](feats).stmt


# ------------------------------------------------------------ execution


def _dump(obj, seen):
    st = getattr(obj, "_sa_instance_state", None)
    if st is not None:
        ident = (type(obj).__name__, obj.__dict__.get("id"))
        if id(obj) in seen:
            return ("ref",) + ident
        seen.add(id(obj))
        items = []
        for k in sorted(obj.__dict__):
            if k == "_sa_instance_state":
                continue
            items.append((k, _dump(obj.__dict__[k], seen)))
        return ident + (tuple(items),)
    if isinstance(obj, (list, tuple)):
        return tuple(_dump(o, seen) for o in obj)
    return repr(obj)


def first_line(e):
    return (str(e).splitlines() or [""])[0][:200]


def observe(engine, built, cache=ENGINE_CACHE):
    """run one built statement; returns (log, outcome); everything is rolled back"""
    log = engine.info_log
    conn = engine.connect()
    try:
        if cache is not ENGINE_CACHE:
            conn = conn.execution_options(compiled_cache=cache)
        del log[:]
        try:
            if built.route == "core":
                res = conn.execute(built.stmt, built.params) if built.params is not None else conn.execute(built.stmt)
                if res.returns_rows:
                    keys = tuple(res.keys())
                    out = ("rows", keys, [repr(tuple(r)) for r in res])
                else:
                    out = ("rowcount", res.rowcount)
            else:
                sess = Session(bind=conn)
                try:
                    pre = None
                    if built.preload:
                        pre = sess.scalars(select(A).order_by(A.id)).all()
                    if built.route == "query":
                        q = built.stmt.with_session(sess)
                        rows = q.all()
                        out = ("orm", [repr(_dump(tuple(r) if hasattr(r, "_fields") else r, set())) for r in rows])
                    else:
                        res = sess.execute(built.stmt, built.params) if built.params is not None else sess.execute(built.stmt)
                        rr = getattr(res, "returns_rows", None)
                        if rr is None:  # ORM result wrappers have no returns_rows; a bulk INSERT gives a closed one
                            rr = not (getattr(res, "closed", False) or getattr(res, "_soft_closed", False))
                        if rr:
                            if built.unique:
                                res = res.unique()
                            rows = res.all()
                            dumped = [repr(_dump(tuple(r), set())) for r in rows]
                        else:
                            dumped = [("rowcount", getattr(res, "rowcount", None))]
                        if pre is not None:
                            from sqlalchemy import inspect as _insp

                            dumped.append(("session", repr([(_dump(o, set()), o in sess, _insp(o).persistent, _insp(o).deleted,
                                                            _insp(o).detached, sorted(_insp(o).expired_attributes)) for o in pre])))
                        out = ("orm", dumped)
                finally:
                    sess.close()
        except Exception as e:  # compared between routes, never judged here
            tb = e.__traceback__
            while tb.tb_next is not None:
                tb = tb.tb_next
            if tb.tb_frame.f_code.co_filename == __file__:
                raise  # a bug in this harness, not an outcome of the statement
            out = ("error", type(e).__name__, first_line(e))
        return list(log), out
    finally:
        try:
            conn.rollback()
        finally:
            conn.close()
