"""ormworld1 -- ORM worlds + history replayer for C35 / C34 / C33 / C48.

Three tiny declarative mapping families, built once per process:

* U1  ``Parent`` 1--n ``Child`` (bidirectional, ``cascade="all"``) and the relationship-free ``Plain``
* U4  ``Person`` / ``Engineer`` (joined table) / ``Manager`` (single table)
* U5  ``NNode`` natural string primary key, ``NItem.node_code`` with
      ``ON UPDATE CASCADE`` (``passive_updates=True``)

``World(cfg)`` creates a *fresh* file-backed SQLite database (copy of a
per-process template under ``/dev/shm/vf-<pid>-orm1``), a fresh Engine
(``connect_args={"autocommit": False}``, ``PRAGMA foreign_keys=ON``), a fresh
``Session`` and a fresh universe of named objects; ``apply(op)`` executes one
operation and returns its outcome; ``build(cfg, history)`` replays a history.
An observer ``sqlite3`` connection reads committed data.

Lifecycle events are recorded **per object** (by harness name); objects born
inside the ORM (query / merge results the harness never constructed) get the
names ``b1, b2, ...`` in birth order.
"""
from __future__ import annotations

import gc
import os
import shutil
import sqlite3
import warnings
import weakref

from sqlalchemy import ForeignKey
from sqlalchemy import create_engine
from sqlalchemy import event
from sqlalchemy import exc as sa_exc
from sqlalchemy import inspect
from sqlalchemy import select
from sqlalchemy.orm import DeclarativeBase
from sqlalchemy.orm import Mapped
from sqlalchemy.orm import Session
from sqlalchemy.orm import make_transient
from sqlalchemy.orm import make_transient_to_detached
from sqlalchemy.orm import mapped_column
from sqlalchemy.orm import relationship
from sqlalchemy.orm import attributes as orm_attributes

# --------------------------------------------------------------- mappings


class Base(DeclarativeBase):
    pass


class Parent(Base):
    __tablename__ = "parent"
    id: Mapped[int] = mapped_column(primary_key=True)
    name: Mapped[str | None]
    children: Mapped[list["Child"]] = relationship(back_populates="parent", cascade="all", order_by="Child.id")


class Child(Base):
    __tablename__ = "child"
    id: Mapped[int] = mapped_column(primary_key=True)
    name: Mapped[str | None]
    parent_id: Mapped[int | None] = mapped_column(ForeignKey("parent.id"))
    parent: Mapped["Parent | None"] = relationship(back_populates="children")


class Plain(Base):
    """no relationships: no lazy load (and therefore no autoflush) hides inside add/delete/expunge"""

    __tablename__ = "plain"
    id: Mapped[int] = mapped_column(primary_key=True)
    name: Mapped[str | None]


class FalsyB(Base):
    """instances are FALSY while ``flag`` is 0 / NULL / not loaded (``__bool__``): code that
    truth-tests an instance instead of comparing with None misbehaves exactly here"""

    __tablename__ = "falsyb"
    id: Mapped[int] = mapped_column(primary_key=True)
    name: Mapped[str | None]
    flag: Mapped[int | None]

    def __bool__(self):
        return bool(self.__dict__.get("flag"))


class FalsyL(Base):
    """same, through ``__len__`` only (no ``__bool__``)"""

    __tablename__ = "falsyl"
    id: Mapped[int] = mapped_column(primary_key=True)
    name: Mapped[str | None]
    flag: Mapped[int | None]

    def __len__(self):
        return self.__dict__.get("flag") or 0


def _cascade_pair(suffix, cascade):
    """Parent/Child pair with a given cascade preset on Parent.children (C35 cascade worlds)"""
    ptab, ctab = "parent" + suffix.lower(), "child" + suffix.lower()
    P_ = type(
        "Parent" + suffix,
        (Base,),
        dict(
            __tablename__=ptab,
            __annotations__={"id": Mapped[int], "name": Mapped[str | None]},
            id=mapped_column(primary_key=True),
            name=mapped_column(),
            children=relationship("Child" + suffix, back_populates="parent", cascade=cascade, order_by="Child%s.id" % suffix),
        ),
    )
    C_ = type(
        "Child" + suffix,
        (Base,),
        dict(
            __tablename__=ctab,
            __annotations__={"id": Mapped[int], "name": Mapped[str | None], "parent_id": Mapped[int | None]},
            id=mapped_column(primary_key=True),
            name=mapped_column(),
            parent_id=mapped_column(ForeignKey(ptab + ".id")),
            parent=relationship("Parent" + suffix, back_populates="children"),
        ),
    )
    return P_, C_


ParentSU, ChildSU = _cascade_pair("SU", "save-update")
ParentDO, ChildDO = _cascade_pair("DO", "all, delete-orphan")


class Person(Base):
    __tablename__ = "person"
    id: Mapped[int] = mapped_column(primary_key=True)
    type: Mapped[str]
    name: Mapped[str | None]
    level: Mapped[int | None]  # used by the single-table subclass Manager
    __mapper_args__ = {"polymorphic_on": "type", "polymorphic_identity": "person"}


class Engineer(Person):
    __tablename__ = "engineer"
    id: Mapped[int] = mapped_column(ForeignKey("person.id"), primary_key=True)
    lang: Mapped[str | None]
    __mapper_args__ = {"polymorphic_identity": "engineer"}


class Manager(Person):
    __mapper_args__ = {"polymorphic_identity": "manager"}


class NNode(Base):
    __tablename__ = "nnode"
    code: Mapped[str] = mapped_column(primary_key=True)
    val: Mapped[str | None]
    items: Mapped[list["NItem"]] = relationship(back_populates="node", passive_updates=True, order_by="NItem.id")


class NItem(Base):
    __tablename__ = "nitem"
    id: Mapped[int] = mapped_column(primary_key=True)
    node_code: Mapped[str | None] = mapped_column(ForeignKey("nnode.code", onupdate="CASCADE"))
    node: Mapped["NNode | None"] = relationship(back_populates="items")


CLASSES = dict(FalsyB=FalsyB, FalsyL=FalsyL, ParentSU=ParentSU, ChildSU=ChildSU, ParentDO=ParentDO, ChildDO=ChildDO, Plain=Plain, Parent=Parent, Child=Child, Person=Person, Engineer=Engineer, Manager=Manager, NNode=NNode, NItem=NItem)
TABLES = ("falsyb", "falsyl", "parentsu", "childsu", "parentdo", "childdo", "plain", "parent", "child", "person", "engineer", "nnode", "nitem")
TABLE_COLS = dict(
    falsyb=("id", "name", "flag"),
    falsyl=("id", "name", "flag"),
    parentsu=("id", "name"),
    childsu=("id", "name", "parent_id"),
    parentdo=("id", "name"),
    childdo=("id", "name", "parent_id"),
    plain=("id", "name"),
    parent=("id", "name"),
    child=("id", "name", "parent_id"),
    person=("id", "type", "name", "level"),
    engineer=("id", "lang"),
    nnode=("code", "val"),
    nitem=("id", "node_code"),
)
# column attributes per class (harness view), primary key attribute first
COLATTRS = dict(
    FalsyB=("id", "name", "flag"),
    FalsyL=("id", "name", "flag"),
    ParentSU=("id", "name"),
    ChildSU=("id", "name", "parent_id"),
    ParentDO=("id", "name"),
    ChildDO=("id", "name", "parent_id"),
    Plain=("id", "name"),
    Parent=("id", "name"),
    Child=("id", "name", "parent_id"),
    Person=("id", "type", "name", "level"),
    Engineer=("id", "type", "name", "level", "lang"),
    Manager=("id", "type", "name", "level"),
    NNode=("code", "val"),
    NItem=("id", "node_code"),
)
PKATTR = dict(FalsyB="id", FalsyL="id", ParentSU="id", ChildSU="id", ParentDO="id", ChildDO="id", Plain="id", Parent="id", Child="id", Person="id", Engineer="id", Manager="id", NNode="code", NItem="id")
RELATTRS = dict(FalsyB=(), FalsyL=(), ParentSU=("children",), ChildSU=("parent",), ParentDO=("children",), ChildDO=("parent",), Plain=(), Parent=("children",), Child=("parent",), NNode=("items",), NItem=("node",), Person=(), Engineer=(), Manager=())

LIFECYCLE_EVENTS = (
    "transient_to_pending",
    "pending_to_transient",
    "pending_to_persistent",
    "persistent_to_transient",
    "persistent_to_deleted",
    "deleted_to_persistent",
    "deleted_to_detached",
    "persistent_to_detached",
    "detached_to_persistent",
    "loaded_as_persistent",
)
STATE_FLAGS = ("transient", "pending", "persistent", "deleted", "detached")

# --------------------------------------------------------------- scratch dir

_DIR = None
_DIR_PID = None
_SEQ = 0
_TEMPLATE = None


_ROOT = None
_ROOT_PID = None


def scratch_root():
    """/dev/shm/vf-<pid>-orm1 of the process that first asked (the master of a
    fork pool); forked workers put their files into sub-directories of it"""
    global _ROOT, _ROOT_PID
    if _ROOT is None:
        _ROOT_PID = os.getpid()
        _ROOT = "/dev/shm/vf-%d-orm1" % _ROOT_PID
        os.makedirs(_ROOT, exist_ok=True)
    return _ROOT


def scratch_dir():
    global _DIR, _DIR_PID, _TEMPLATE, _SEQ
    pid = os.getpid()
    if _DIR is None or _DIR_PID != pid:
        _DIR = os.path.join(scratch_root(), "p%d" % pid)
        _DIR_PID = pid
        _TEMPLATE = None
        _SEQ = 0
        os.makedirs(_DIR, exist_ok=True)
    return _DIR


def cleanup():
    """dispose the engine and remove the scratch files of this process; the
    process that created the scratch root removes all of it (call in a finally
    of run_shard / replay)"""
    global _DIR, _TEMPLATE, _CURRENT, _ROOT
    if _ENGINE is not None:
        _ENGINE.dispose()
    _force_close_raw()
    _CURRENT = None
    if _DIR is not None and _DIR_PID == os.getpid():
        shutil.rmtree(_DIR, ignore_errors=True)
    _DIR = None
    _TEMPLATE = None
    if _ROOT is not None and _ROOT_PID == os.getpid():
        shutil.rmtree(_ROOT, ignore_errors=True)
        _ROOT = None


def _template():
    global _TEMPLATE
    d = scratch_dir()
    if _TEMPLATE is None or not os.path.exists(_TEMPLATE):
        path = os.path.join(d, "template.db")
        if os.path.exists(path):
            os.unlink(path)
        e = create_engine("sqlite:///" + path)
        Base.metadata.create_all(e)
        e.dispose()
        _TEMPLATE = path
    return _TEMPLATE


def _on_connect(dbapi_conn, rec):
    # PRAGMA foreign_keys is a no-op inside a transaction, and autocommit=False
    # connections are always inside one: flip the mode around the pragma
    dbapi_conn.autocommit = True
    dbapi_conn.execute("pragma foreign_keys=on")
    dbapi_conn.autocommit = False


def state_of(obj):
    """lifecycle flags that are true, joined with '+' (exactly one expected)"""
    i = inspect(obj)
    return "+".join(n for n in STATE_FLAGS if getattr(i, n))


class Outcome:
    __slots__ = ("ok", "value", "exc", "warnings")

    def __init__(self, ok, value=None, exc=None, warnings_=()):
        self.ok, self.value, self.exc, self.warnings = ok, value, exc, tuple(warnings_)

    @property
    def exc_name(self):
        return type(self.exc).__name__ if self.exc is not None else None

    @property
    def is_sa_error(self):
        return isinstance(self.exc, sa_exc.SQLAlchemyError)

    def short(self):
        if self.ok:
            return "ok"
        return "%s: %s" % (self.exc_name, str(self.exc).split("\n")[0][:160])


class VSession(Session):
    """Session subclass so that the lifecycle listeners are registered once per
    process on the class (event.listen per replay costs more than the replay)"""


def _mk_class_listener(ev):
    def on(sess, obj):
        w = sess.info.get("vf_world")
        if w is not None and w.record_events:
            rh, w.rehold = w.rehold, False
            try:
                w.evlog.append((w.name_of(obj), ev))
            finally:
                w.rehold = rh

    return on


for _ev in LIFECYCLE_EVENTS:
    event.listen(VSession, _ev, _mk_class_listener(_ev))

# One Engine object per process: its compiled-statement cache is keyed by the
# dialect instance, so a new Engine per replay would recompile every statement
# of every replay.  Freshness is per *database*: the file is replaced by a copy
# of the template and every pooled connection is disposed between replays.
_ENGINE = None
_CURRENT = None


def _count_sql(conn, cursor, statement, parameters, context, executemany):
    w = _CURRENT
    if w is not None and w.count_sql:
        if not statement.lstrip().upper().startswith(("SAVEPOINT", "RELEASE", "ROLLBACK TO", "PRAGMA")):
            w.stmts += 1
            w.stmt_log.append(statement)


_RAW = []  # raw DBAPI connections opened for the current world (this process)


def _connect():
    c = sqlite3.connect(os.path.join(scratch_dir(), "w.db"), autocommit=False)
    _RAW.append(c)
    return c


def _force_close_raw():
    """a Session that could not be closed normally (e.g. after rollback() itself
    raised) must not keep a lock on the database file of the next replay"""
    while _RAW:
        c = _RAW.pop()
        try:
            c.rollback()
        except Exception:  # noqa: BLE001
            pass
        try:
            c.close()
        except Exception:  # noqa: BLE001
            pass


def _engine():
    """the database path is resolved at connect time from the calling process'
    scratch directory, so forked workers inherit the Engine (with its warm
    statement cache and configured mappers) but never share a database file"""
    global _ENGINE
    if _ENGINE is None:
        from sqlalchemy.pool import QueuePool

        _ENGINE = create_engine("sqlite://", creator=_connect, poolclass=QueuePool)
        event.listen(_ENGINE, "connect", _on_connect)
        event.listen(_ENGINE, "before_cursor_execute", _count_sql)
    return _ENGINE


class World:
    """cfg keys: eoc (bool), autoflush (bool, default True), universe =
    [(name, clsname, {attr: value})...] constructed transient in that order,
    seed = {table: [row tuple...]} committed before the session starts,
    record_events (default True), sql_count (default False)"""

    def __init__(self, cfg):
        global _SEQ
        self.cfg = cfg
        global _CURRENT
        scratch_dir()
        _SEQ += 1
        if _SEQ % 128 == 0:
            gc.collect()  # sessions of earlier replays form cycles; gc is disabled by the drivers
        self.engine = _engine()
        self.engine.dispose()
        _force_close_raw()
        self.path = os.path.join(scratch_dir(), "w.db")
        shutil.copyfile(_template(), self.path)
        for suffix in ("-journal", "-wal"):
            if os.path.exists(self.path + suffix):
                os.unlink(self.path + suffix)
        seed = cfg.get("seed") or {}
        if seed:
            c = sqlite3.connect(self.path, isolation_level=None)
            c.execute("pragma foreign_keys=on")
            for t in TABLES:
                for row in seed.get(t, ()):
                    c.execute("insert into %s values (%s)" % (t, ",".join("?" * len(row))), tuple(row))
            c.close()
        self.tables = tuple(cfg.get("tables") or TABLES)
        self.stmts = 0
        self.stmt_log = []
        self.count_sql = bool(cfg.get("sql_count"))
        _CURRENT = self
        self.session = VSession(self.engine, expire_on_commit=cfg.get("eoc", True), autoflush=cfg.get("autoflush", True))
        self.session.info["vf_world"] = self
        self.record_events = cfg.get("record_events", True)
        self.observer = sqlite3.connect(self.path, isolation_level=None, timeout=1.0)
        self.objs = {}  # name -> strong ref
        self.weak = {}  # name -> weakref (all objects ever named)
        self.cls = {}  # name -> class name
        self.sps = []  # open SessionTransaction handles of begin_nested
        self.evlog = []  # (name, event) in firing order
        self.nborn = 0
        self.closed = False
        self.rehold = True
        self.born_hold = cfg.get("born_hold", True)  # False: objects first seen by an event listener are named but not kept alive
        self.initial = {}
        for name, clsname, kw in cfg.get("universe", ()):
            self.construct(name, clsname, kw)
            self.initial[name] = tuple(sorted((k, v) for k, v in kw.items() if not isinstance(v, (list, tuple)) and not (isinstance(v, str) and v.startswith("@"))))

    # ---- bookkeeping
    def name_of(self, obj, born=True):
        n = obj.__dict__.get("_vf_name")
        if n is None and born:
            self.nborn += 1
            n = "b%d" % self.nborn
            self.register(n, obj, hold=self.rehold or self.born_hold)
        elif n is not None and n not in self.objs and n != "src" and self.rehold:
            self.objs[n] = obj  # the application received the object again (query / get result)
        return n

    def register(self, name, obj, hold=True):
        obj.__dict__["_vf_name"] = name
        if hold:
            self.objs[name] = obj
        self.weak[name] = weakref.ref(obj)
        self.cls[name] = type(obj).__name__

    def construct(self, name, clsname, kw):
        obj = CLASSES[clsname]()
        for k, v in kw.items():
            setattr(obj, k, self.resolve(v))
        self.register(name, obj)
        return obj

    def resolve(self, v):
        if isinstance(v, str) and v.startswith("@"):
            return self.objs[v[1:]]
        if isinstance(v, (list, tuple)):
            return [self.resolve(i) for i in v]
        return v

    def drop(self, name):
        """the harness gives up its only strong reference"""
        self.objs.pop(name, None)

    def alive(self, name):
        r = self.weak.get(name)
        return r is not None and r() is not None

    def take_events(self):
        ev, self.evlog = self.evlog, []
        return ev

    # ---- operations
    def apply(self, op):
        """execute one op; returns Outcome. op = (kind, *args) JSON-able"""
        fn = getattr(self, "op_" + op[0])
        with warnings.catch_warnings(record=True) as wl:
            warnings.simplefilter("always")
            try:
                v = fn(*op[1:])
                out = Outcome(True, v)
            except Exception as e:  # noqa: BLE001 - classified by the driver
                x = e
                while x is not None:  # frames in the traceback would keep mapped objects alive
                    x.__traceback__ = None
                    x = x.__cause__ or x.__context__
                out = Outcome(False, exc=e)
        out.warnings = tuple(str(w.message).split("\n")[0][:200] for w in wl)
        return out

    def op_add(self, name, reinit=None):
        if reinit == "auto":
            # invariant-based drivers: (re)initialise whenever the object is transient
            reinit = self.initial.get(name) if inspect(self.objs[name]).transient else None
        if reinit:
            self.op_reinit(name, reinit)
        self.session.add(self.objs[name])

    def op_reinit(self, name, values):
        """the application (re)initialises a transient object: explicit attribute sets"""
        o = self.objs[name]
        st = orm_attributes.instance_state(o)
        if st.expired_attributes or any(k not in o.__dict__ for k, _ in values):
            # a transient object left with expired attributes (evicted by a rollback
            # after it had been expired) raises DetachedInstanceError on access;
            # make_transient() is the documented way to make it usable again
            make_transient(o)
            self.reinit_cleanups = getattr(self, "reinit_cleanups", 0) + 1
        for k, v in values:
            setattr(o, k, v)

    def op_delete(self, name):
        self.session.delete(self.objs[name])

    def op_delete_live(self, name):
        """Session.delete() within its documented precondition ("the object is assumed
        to be persistent or detached"): skipped for an object that is already deleted"""
        st = inspect(self.objs[name])
        if st.deleted or (st.detached and st.was_deleted):
            return "skipped"
        self.session.delete(self.objs[name])

    def row_exists(self, name):
        o = self.objs[name]
        cn = self.cls[name]
        pk = o.__dict__.get(PKATTR[cn])
        if pk is None and inspect(o).key is not None:
            pk = inspect(o).key[1][0]
        t = CLASSES[cn].__table__.name if cn not in ("Engineer", "Manager") else "person"
        return any(r[0] == pk for r in dict(self.session_rows()).get(t, ()))

    def op_add_known(self, name, reinit=None):
        """add(); re-attaching a detached object only while its row exists (the
        application does not claim identities that are not in the database)"""
        if inspect(self.objs[name]).detached and not self.row_exists(name):
            return "skipped"
        return self.op_add(name, reinit)

    def op_mttd_known(self, name, reinit=None):
        """make_transient_to_detached() asserts 'this object has a row': only when true"""
        o = self.objs[name]
        if inspect(o).transient:
            if reinit == "auto":
                self.op_reinit(name, self.initial.get(name))
                reinit = None
            if not self.row_exists(name):
                return "skipped"
        return self.op_mttd(name, reinit)

    def op_expunge(self, name):
        self.session.expunge(self.objs[name])

    def op_set(self, name, attr, value):
        setattr(self.objs[name], attr, self.resolve(value))

    def op_set_nf(self, name, attr, value):
        """set inside session.no_autoflush (a primary-key attribute loads its old value first)"""
        with self.session.no_autoflush:
            setattr(self.objs[name], attr, self.resolve(value))

    def op_append(self, name, attr, other):
        getattr(self.objs[name], attr).append(self.objs[other])

    def op_remove_if(self, name, attr, other):
        """collection.remove(other) when other is a member (list.remove of a non-member is a plain ValueError)"""
        coll = getattr(self.objs[name], attr)
        if not any(x is self.objs[other] for x in coll):
            return "skipped"
        coll.remove(self.objs[other])

    def op_append_if(self, name, attr, other):
        coll = getattr(self.objs[name], attr)
        if any(x is self.objs[other] for x in coll):
            return "skipped"
        coll.append(self.objs[other])

    def op_remove(self, name, attr, other):
        getattr(self.objs[name], attr).remove(self.objs[other])

    def op_flush(self):
        self.session.flush()

    def op_commit(self):
        self.session.commit()
        self.sps = []

    def op_rollback(self):
        self.session.rollback()
        self.sps = []

    def op_close(self):
        self.session.close()
        self.sps = []

    def op_begin_nested(self):
        self.sps.append(self.session.begin_nested())

    def op_begin_nested_nf(self):
        """begin_nested() inside a no_autoflush block (it must flush all the same)"""
        with self.session.no_autoflush:
            self.sps.append(self.session.begin_nested())

    def op_sp_rollback(self):
        self.sps.pop().rollback()

    def op_sp_commit(self):
        self.sps.pop().commit()

    def op_expire(self, name, attrs=None):
        self.session.expire(self.objs[name], attrs)

    def op_expire_all(self):
        self.session.expire_all()

    def op_refresh(self, name):
        self.session.refresh(self.objs[name])

    def op_query_iter(self, clsname, opts=None):
        """iterate the result instead of .all() (yield_per batches)"""
        cls = CLASSES[clsname]
        stmt = select(cls).order_by(getattr(cls, PKATTR[clsname]))
        if opts:
            stmt = stmt.execution_options(**dict(opts))
        out = []
        for o in self.session.scalars(stmt):
            out.append(self.name_of(o))
        return out

    def op_make_transient(self, name):
        make_transient(self.objs[name])

    def op_mttd(self, name, reinit=None):
        if reinit == "auto":
            reinit = self.initial.get(name) if inspect(self.objs[name]).transient else None
        if reinit:
            self.op_reinit(name, reinit)
        make_transient_to_detached(self.objs[name])

    def op_query(self, clsname, opts=None):
        """select(cls) ordered by pk; returns list of harness names (objects born here are named + kept)"""
        cls = CLASSES[clsname]
        stmt = select(cls).order_by(getattr(cls, PKATTR[clsname]))
        if opts:
            stmt = stmt.execution_options(**dict(opts))
        res = self.session.scalars(stmt).all()
        return [self.name_of(o) for o in res]

    def op_get(self, clsname, pk, kw=None):
        o = self.session.get(CLASSES[clsname], pk, **dict(kw or ()))
        return None if o is None else self.name_of(o)

    def op_merge(self, clsname, values):
        """merge a fresh transient copy carrying `values`; returns name of the result"""
        src = CLASSES[clsname]()
        for k, v in values:
            setattr(src, k, v)
        src.__dict__["_vf_name"] = "src"
        merged = self.session.merge(src)
        assert merged is not src
        return self.name_of(merged), state_of(src)

    def op_dropref(self, name):
        self.drop(name)

    def op_gc(self):
        gc.collect()

    def op_touch(self, name, attr):
        return canon_value(getattr(self.objs[name], attr))

    # ---- observation
    def committed_rows(self):
        out = {}
        for t in self.tables:
            rows = self.observer.execute("select * from %s order by 1" % t).fetchall()
            if rows:
                out[t] = tuple(tuple(r) for r in rows)
        return out

    def session_rows(self):
        """rows as the session's own transaction sees them (no autoflush, no ORM);
        outside a transaction: the committed rows"""
        s = self.session
        if s.in_transaction() and s.is_active and s.get_transaction().is_active:
            try:
                conn = s.connection()
            except sa_exc.SQLAlchemyError:
                return self.committed_rows()
            out = {}
            for t in self.tables:
                rows = conn.exec_driver_sql("select * from %s order by 1" % t).fetchall()
                if rows:
                    out[t] = tuple(tuple(r) for r in rows)
            return out
        return self.committed_rows()

    def lifecycle(self):
        return {n: state_of(o) for n, o in self.objs.items()}

    def membership(self, name):
        o = self.objs[name]
        s = self.session
        st = inspect(o)
        return dict(
            contains=o in s,
            new=o in s.new,
            dirty=o in s.dirty,
            deleted=o in s.deleted,
            in_map=s.identity_map.contains_state(st),
            key=None if st.key is None else tuple(st.key[1]),
            attached=st.session is s,
        )

    def loaded_values(self, name):
        """column attributes currently present in __dict__ (no load is triggered)"""
        o = self.objs[name]
        d = o.__dict__
        return {a: d[a] for a in COLATTRS[self.cls[name]] if a in d}

    def close(self):
        try:
            self.session.close()
        except Exception:  # noqa: BLE001
            pass
        try:
            self.observer.close()
        except Exception:  # noqa: BLE001
            pass
        self.engine.dispose()
        _force_close_raw()
        self.closed = True


def canon_value(v):
    if isinstance(v, Base):
        return "@" + str(v.__dict__.get("_vf_name"))
    if isinstance(v, (list, tuple)):
        return tuple(canon_value(i) for i in v)
    if v is orm_attributes.NO_VALUE or v is orm_attributes.NEVER_SET:
        return "<%s>" % v.name if hasattr(v, "name") else repr(v)
    if hasattr(v, "_sa_adapter") or type(v).__name__ in ("InstrumentedList", "CollectionAdapter"):
        return tuple(canon_value(i) for i in v)
    if v is None or isinstance(v, (int, str, float, bool)):
        return v
    return repr(v)


def _state_name(world, st):
    o = st.obj()
    if o is None:
        return "<dead>"
    return o.__dict__.get("_vf_name") or "<anon>"


def deep_canon(world):
    """identity-free canonical form of everything the Session implementation can
    consult later: transaction stack with per-level snapshot membership,
    session.new / deleted / identity map / modified set, and per object the
    lifecycle flags, identity key, _deleted flag, modified / expired marks,
    committed_state, loaded values, strong-ref flag, pending collection
    mutations; plus database rows (transaction view and committed)."""
    s = world.session
    nm = lambda st: _state_name(world, st)  # noqa: E731
    levels = []
    t = s._transaction
    while t is not None:
        levels.append(
            (
                bool(t.nested),
                t._state.name,
                t.origin.name,
                tuple(sorted(nm(x) for x in t._new)),
                tuple(sorted(nm(x) for x in t._deleted)),
                tuple(sorted(nm(x) for x in t._dirty)),
                tuple(sorted((nm(x), repr(v[0] and v[0][1]), repr(v[1] and v[1][1])) for x, v in t._key_switches.items())),
                t._new is getattr(t._parent, "_new", None),
            )
        )
        t = t._parent
    imap = s.identity_map
    sess = (
        tuple(levels),
        tuple(sorted(nm(x) for x in s._new)),
        tuple(sorted(nm(x) for x in s._deleted)),
        tuple(sorted(((k[0].__name__, tuple(k[1]), k[2], nm(st)) for k, st in imap._dict.items()), key=repr)),
        tuple(sorted(nm(x) for x in imap._modified)),
        len(world.sps),
        s._close_state.name,
    )
    objs = []
    for name in sorted(world.weak):
        o = world.weak[name]()
        if o is None:
            objs.append((name, "<dead>"))
            continue
        st = orm_attributes.instance_state(o)
        d = o.__dict__
        attrs = COLATTRS[world.cls[name]] + RELATTRS[world.cls[name]]
        objs.append(
            (
                name,
                name in world.objs,
                state_of(o),
                None if st.key is None else (tuple(st.key[1]), repr(st.key[2])),
                st.session_id is not None,
                bool(st._deleted),
                bool(st.modified),
                bool(st.expired),
                tuple(sorted(st.expired_attributes)),
                tuple(sorted((k, canon_value(v)) for k, v in st.committed_state.items())),
                tuple((a, canon_value(d[a])) for a in attrs if a in d),
                st._strong_obj is not None,
                tuple(sorted(st._pending_mutations)) if "_pending_mutations" in st.__dict__ else (),
                tuple(sorted(st.callables)) if st.callables else (),
                bool(st._load_pending),
                bool(st._orphaned_outside_of_session),
                tuple(sorted((k, canon_value(v)) for k, v in (st._last_known_values or {}).items())),
            )
        )
    return (sess, tuple(objs), tuple(sorted(world.session_rows().items())), tuple(sorted(world.committed_rows().items())))


def build(cfg, history):
    """fresh world, history replayed (outcomes ignored: they were checked when
    each prefix was explored)"""
    w = World(cfg)
    for op in history:
        w.apply(tuple(op))
    w.take_events()
    return w


# ------------------------------------------------------------------ parallel BFS
#
# Level-synchronous variant of vf.engines.hist.explore: the master owns the
# seen-set and the frontier; each level's (state, op) applications are fanned
# out over a fork pool and merged in frontier order, so states, transitions
# and the first (= shortest) counterexample are identical for every job count.
# A driver using it exposes ONE shard to vf.cli (which then runs it in-process,
# so that this pool is not nested inside a daemonic pool worker).

_PWORK = None


def jobs_from_argv(default=None):
    import sys

    j = 0
    argv = sys.argv
    for i, a in enumerate(argv):
        if a == "--jobs" and i + 1 < len(argv):
            j = int(argv[i + 1])
        elif a.startswith("--jobs="):
            j = int(a.split("=", 1)[1])
    if not j:
        j = int(os.environ.get("VF_JOBS", "0") or 0)
    if not j:
        j = default or min(16, os.cpu_count() or 1)
    return max(1, j)


class StepTimeout(BaseException):
    pass


def _on_step_alarm(signum, frame):
    raise StepTimeout("one history step exceeded its watchdog limit")


def _pworker(chunk):
    import signal
    import traceback

    from vf import core

    prop, enabled, make_step, step_timeout, ctx = _PWORK
    rec = core.Rec(prop)
    step = make_step(rec)
    out = []
    gc.disable()
    # watchdog per step: CPU time (a loop in the library) and, far more generous,
    # wall time (a blocked call); wall time alone misfires on an overloaded box
    signal.signal(signal.SIGALRM, _on_step_alarm)
    signal.signal(signal.SIGVTALRM, _on_step_alarm)
    try:
        for idx, hist_, ms in chunk:
            for oi, op in enumerate(enabled(ms)):
                rec.transition()
                rec.trace()
                signal.alarm(step_timeout * 30)
                signal.setitimer(signal.ITIMER_VIRTUAL, step_timeout)
                try:
                    res = step(hist_, ms, op)
                except Exception as e:  # noqa: BLE001 - a harness error: say where
                    e.add_note("while applying %r after history %r" % (op, hist_))
                    raise
                except StepTimeout:
                    tb = traceback.format_exc()
                    sig = core.classify_crash(tb.replace("StepTimeout", "ShardTimeout")) or "hang (no sqlalchemy frame)"
                    rec.violation("%s: %s op=%s" % (prop, sig, op[0]), tb, dict(kind="hang", ctx=ctx, history=[list(h) for h in hist_], op=list(op)))
                    res = None
                finally:
                    signal.setitimer(signal.ITIMER_VIRTUAL, 0)
                    signal.alarm(0)
                if res is not None:
                    out.append((idx, oi, hist_ + (op,), res[0], res[1]))
    except core.StopShard:
        pass
    return rec, out


def explore_levels(rec, prop, roots, enabled, make_step, depth, jobs, chunk=6, step_timeout=60, warm=None, ctx=None):
    """roots: [(history, model_state, key)]; enabled(ms) -> ops; make_step(rec) ->
    step(history, ms, op) -> (ms2, key) | None.  Returns the deepest level with new states."""
    import multiprocessing as mp

    global _PWORK
    if depth is not None and os.environ.get("VF_MAXDEPTH"):
        # development aid (mutation self-tests): cap the exploration depth; evidence then says so
        cap = int(os.environ["VF_MAXDEPTH"])
        if cap < depth:
            depth = cap
            rec.cap("VF_MAXDEPTH=%d set: depth capped" % cap)
    _PWORK = (prop, enabled, make_step, step_timeout, ctx)
    scratch_root()  # owned by this (master) process; workers use sub-directories
    _template()
    for wcfg, whist in warm or ():
        # configure the mappers and fill the statement cache before forking
        ww = World(wcfg)
        try:
            for wop in whist:
                ww.apply(tuple(wop))
        finally:
            ww.close()
    _engine().dispose()  # no pooled connection may cross the fork
    gc.collect()
    gc.freeze()  # a collection in a forked worker must not walk (and copy-on-write) the inherited heap
    frontier = []
    for h, ms, key in roots:
        if rec.state(key):
            frontier.append((tuple(h), ms))
    maxd = 0
    pool = None
    try:
        if jobs > 1:
            pool = mp.get_context("fork").Pool(jobs)
        d = 0
        while frontier and (depth is None or d < depth):
            items = [(i, h, ms) for i, (h, ms) in enumerate(frontier)]
            chunks = [items[i : i + chunk] for i in range(0, len(items), chunk)]
            results = pool.imap(_pworker, chunks) if pool is not None else map(_pworker, chunks)
            nxt = []
            for wrec, out in results:
                rec.merge(wrec)
                for idx, oi, h2, ms2, key in out:
                    if rec.state(key):
                        nxt.append((h2, ms2))
            d += 1
            if nxt:
                maxd = d
            frontier = nxt
        return maxd
    finally:
        if pool is not None:
            pool.terminate()
            pool.join()
        _PWORK = None
