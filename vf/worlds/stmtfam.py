"""Small statement families for C04 / C16 / C17 / C18 (owner: builder stmt2).

Everything here is deterministic and builds *fresh* SQLAlchemy constructs on
every call (two routes of a differential never share objects).

Sections
  1. SQL tokenizer shared by the checks (placeholders, tail clauses)
  2. LIMIT / OFFSET / FETCH / TOP reference grammar + slice model   (C18)
  3. the C18 world (tables t/u, 0..6 rows) and ordered query shapes
  4. the C04 bind-position family
  5. the C16 schema family
"""
from __future__ import annotations

import math
import re

import sqlalchemy as sa
from sqlalchemy import bindparam
from sqlalchemy import Column
from sqlalchemy import ForeignKey
from sqlalchemy import func
from sqlalchemy import Integer
from sqlalchemy import literal
from sqlalchemy import literal_column
from sqlalchemy import MetaData
from sqlalchemy import select
from sqlalchemy import String
from sqlalchemy import Table
from sqlalchemy import union_all

# --------------------------------------------------------------------------
# 1. tokenizer
# --------------------------------------------------------------------------

_TOK = re.compile(
    r"""
    (?P<ws>\s+)
  | (?P<str>'(?:[^']|'')*')
  | (?P<qid>"(?:[^"]|"")*"|`(?:[^`]|``)*`|\[[^\]]*\])
  | (?P<num>\d+(?:\.\d+)?)
  | (?P<cast>::\s*[A-Za-z_][A-Za-z0-9_]*)
  | (?P<named>:[A-Za-z_][A-Za-z0-9_]*)
  | (?P<numeric>[:$]\d+)
  | (?P<pyformat>%\([^)]*\)s)
  | (?P<format>%s)
  | (?P<pct>%%)
  | (?P<word>[A-Za-z_][A-Za-z0-9_$]*)
  | (?P<op>\|\||<=|>=|!=|<>|[-+*/%(),.=<>;?])
    """,
    re.X,
)


class TokErr(Exception):
    pass


def tokenize(sql):
    """-> list of (kind, text); whitespace dropped.  Raises TokErr on a
    character the reference lexer does not know."""
    out = []
    pos = 0
    n = len(sql)
    while pos < n:
        m = _TOK.match(sql, pos)
        if m is None:
            raise TokErr("cannot tokenize at %d: %r" % (pos, sql[pos : pos + 20]))
        pos = m.end()
        k = m.lastgroup
        if k != "ws":
            out.append((k, m.group(0)))
    return out


def nest(tokens):
    """token list -> tree: a list whose items are tokens or nested lists (one
    per parenthesised group)"""
    root = []
    stack = [root]
    for tok in tokens:
        if tok == ("op", "("):
            new = []
            stack[-1].append(new)
            stack.append(new)
        elif tok == ("op", ")"):
            if len(stack) == 1:
                raise TokErr("unbalanced )")
            stack.pop()
        else:
            stack[-1].append(tok)
    if len(stack) != 1:
        raise TokErr("unbalanced (")
    return root


def untok(items):
    """render a token tree back to text"""
    parts = []
    for it in items:
        if isinstance(it, list):
            parts.append("(" + untok(it) + ")")
        else:
            parts.append(it[1])
    return " ".join(parts)


# --------------------------------------------------------------------------
# 2. LIMIT grammar and slice model
# --------------------------------------------------------------------------

MYSQL_NOLIMIT = 18446744073709551615

# which clause forms a backend accepts (from the vendors' SELECT grammar)
GRAMMAR = {
    "sqlite": dict(limit=True, limit_comma=True, limit_all=False, offset_rows=False, fetch=False, top=False, fetch_needs_offset=False),
    "postgresql": dict(limit=True, limit_comma=False, limit_all=True, offset_rows=True, fetch=True, top=False, fetch_needs_offset=False),
    "mysql": dict(limit=True, limit_comma=True, limit_all=False, offset_rows=False, fetch=False, top=False, fetch_needs_offset=False),
    "mariadb": dict(limit=True, limit_comma=True, limit_all=False, offset_rows=True, fetch=True, top=False, fetch_needs_offset=False),
    "mssql": dict(limit=False, limit_comma=False, limit_all=False, offset_rows=True, fetch=True, top=True, fetch_needs_offset=True),
    "oracle": dict(limit=False, limit_comma=False, limit_all=False, offset_rows=True, fetch=True, top=False, fetch_needs_offset=False),
}

_STOP = {"OFFSET", "ROWS", "ROW", "PERCENT", "FETCH", "FOR", "LIMIT", "WITH", "ONLY", "UNION", "INTERSECT", "EXCEPT"}


class ClauseErr(Exception):
    """the rendered tail clause is not a sentence of the backend's grammar"""


def _is_word(it, *words):
    return not isinstance(it, list) and it[0] == "word" and it[1] in words


def _take_expr(items, i, comma_stops=False):
    """collect expression items from position i until a stop keyword"""
    out = []
    while i < len(items):
        it = items[i]
        if not isinstance(it, list):
            if it[0] == "word" and it[1] in _STOP:
                break
            if comma_stops and it == ("op", ","):
                break
        out.append(it)
        i += 1
    if not out:
        raise ClauseErr("empty expression")
    return out, i


def find_limit_clauses(tree, backend, depth=0, out=None):
    """walk the token tree; for each parenthesis level that contains
    LIMIT / OFFSET / FETCH / TOP keywords parse them by the backend grammar.

    -> list of dict(depth, limit, offset, ties, percent) where limit/offset are
    expression item lists or None, in order of appearance (pre-order)."""
    g = GRAMMAR[backend]
    if out is None:
        out = []
    items = tree
    # a level may hold several SELECTs (compound): the tail clause belongs to
    # the whole compound; TOP belongs to one SELECT.  We parse at most one TOP
    # and one tail per level and complain otherwise.
    spec = None
    i = 0
    n = len(items)
    slot = len(out)
    while i < n:
        it = items[i]
        if isinstance(it, list):
            i += 1
            continue
        if _is_word(it, "TOP"):
            if not g["top"]:
                raise ClauseErr("TOP is not %s syntax" % backend)
            if spec is not None:
                raise ClauseErr("two row limiting clauses in one SELECT")
            # SELECT [DISTINCT] TOP n
            j = i - 1
            if j >= 0 and _is_word(items[j], "DISTINCT"):
                j -= 1
            if j < 0 or not _is_word(items[j], "SELECT"):
                raise ClauseErr("TOP not directly after SELECT [DISTINCT]")
            if i + 1 >= n:
                raise ClauseErr("TOP without value")
            val = items[i + 1]
            if not (isinstance(val, list) or val[0] in ("num", "named")):
                raise ClauseErr("TOP value must be a number or parenthesised")
            spec = dict(limit=[val], offset=None, ties=False, percent=False)
            i += 2
            if i < n and _is_word(items[i], "PERCENT"):
                spec["percent"] = True
                i += 1
            if i + 1 < n and _is_word(items[i], "WITH") and _is_word(items[i + 1], "TIES"):
                spec["ties"] = True
                i += 2
            continue
        if _is_word(it, "LIMIT"):
            if not g["limit"]:
                raise ClauseErr("LIMIT is not %s syntax" % backend)
            if spec is not None:
                raise ClauseErr("two row limiting clauses in one SELECT")
            spec = dict(limit=None, offset=None, ties=False, percent=False)
            if i + 1 < n and _is_word(items[i + 1], "ALL"):
                if not g["limit_all"]:
                    raise ClauseErr("LIMIT ALL is not %s syntax" % backend)
                i += 2
            else:
                e1, i = _take_expr(items, i + 1, comma_stops=True)
                if i < n and items[i] == ("op", ","):
                    if not g["limit_comma"]:
                        raise ClauseErr("LIMIT a, b is not %s syntax" % backend)
                    e2, i = _take_expr(items, i + 1, comma_stops=True)
                    spec["offset"], spec["limit"] = e1, e2
                    continue
                spec["limit"] = e1
            if i < n and _is_word(items[i], "OFFSET"):
                e2, i = _take_expr(items, i + 1)
                if i < n and _is_word(items[i], "ROWS", "ROW"):
                    raise ClauseErr("LIMIT .. OFFSET n ROWS mixes two syntaxes")
                spec["offset"] = e2
            continue
        if _is_word(it, "OFFSET"):
            if not g["offset_rows"]:
                raise ClauseErr("OFFSET n ROWS is not %s syntax" % backend)
            if spec is not None:
                raise ClauseErr("two row limiting clauses in one SELECT")
            spec = dict(limit=None, offset=None, ties=False, percent=False)
            e, i = _take_expr(items, i + 1)
            if not (i < n and _is_word(items[i], "ROWS", "ROW")):
                raise ClauseErr("OFFSET without ROWS")
            spec["offset"] = e
            i += 1
            if not (i < n and _is_word(items[i], "FETCH")):
                continue
            it = items[i]
        if _is_word(it, "FETCH"):
            if not g["fetch"]:
                raise ClauseErr("FETCH FIRST is not %s syntax" % backend)
            if spec is None:
                if g["fetch_needs_offset"]:
                    raise ClauseErr("%s requires OFFSET before FETCH" % backend)
                spec = dict(limit=None, offset=None, ties=False, percent=False)
            elif spec["limit"] is not None:
                raise ClauseErr("two row limiting clauses in one SELECT")
            i += 1
            if not (i < n and _is_word(items[i], "FIRST", "NEXT")):
                raise ClauseErr("FETCH without FIRST/NEXT")
            e, i = _take_expr(items, i + 1)
            spec["limit"] = e
            if i < n and _is_word(items[i], "PERCENT"):
                spec["percent"] = True
                i += 1
            if not (i < n and _is_word(items[i], "ROWS", "ROW")):
                raise ClauseErr("FETCH FIRST n without ROWS")
            i += 1
            if i < n and _is_word(items[i], "ONLY"):
                i += 1
            elif i + 1 < n and _is_word(items[i], "WITH") and _is_word(items[i + 1], "TIES"):
                spec["ties"] = True
                i += 2
            else:
                raise ClauseErr("FETCH FIRST n ROWS without ONLY / WITH TIES")
            continue
        i += 1
    if spec is not None:
        spec["depth"] = depth
        out.insert(slot, spec)
    for it in items:
        if isinstance(it, list):
            find_limit_clauses(it, backend, depth + 1, out)
    return out


def eval_expr(items, params, conn):
    """value of a limit/offset expression: bare integer literal in Python
    (arbitrary size), everything else by SQLite (casts removed)"""
    items = [it for it in items if isinstance(it, list) or it[0] != "cast"]
    while len(items) == 1 and isinstance(items[0], list):
        items = [it for it in items[0] if isinstance(it, list) or it[0] != "cast"]
    if len(items) == 1 and items[0][0] == "num":
        return int(items[0][1])
    if len(items) == 2 and items[0] == ("op", "-") and items[1][0] == "num":
        return -int(items[1][1])
    text = untok(items)
    names = set(re.findall(r":([A-Za-z_][A-Za-z0-9_]*)", text))
    row = conn.exec_driver_sql("SELECT " + text, {k: params[k] for k in names}).one()
    return row[0]


def model_slice(rows, limit, offset, ties=False, percent=False, tiekey=None, backend="sqlite"):
    """reference semantics of a row limiting clause on an ordered row list"""
    rows = list(rows)
    off = 0 if offset is None else max(0, int(offset))
    rest = rows[off:]
    if limit is None:
        return rest
    if backend in ("sqlite",) and limit < 0:
        return rest
    if backend in ("mysql", "mariadb") and limit == MYSQL_NOLIMIT:
        return rest
    if percent:
        k = int(math.ceil(len(rows) * limit / 100.0))
    else:
        k = int(limit)
    k = max(k, 0)
    got = rest[:k]
    if ties and got and tiekey is not None:
        last = tiekey(got[-1])
        for r in rest[k:]:
            if tiekey(r) == last:
                got.append(r)
            else:
                break
    return got


# --------------------------------------------------------------------------
# 3. C18 world and shapes
# --------------------------------------------------------------------------

G_PATTERN = [1, 1, 2, None, 2, 3]  # ties, a NULL


def lim_metadata():
    m = MetaData()
    t = Table("t", m, Column("id", Integer, primary_key=True), Column("g", Integer), Column("v", Integer))
    u = Table("u", m, Column("id", Integer, primary_key=True), Column("tid", ForeignKey("t.id")), Column("w", Integer))
    return m, t, u


def lim_rows(n):
    """rows of t and u for an n-row world"""
    trows = [dict(id=i, g=G_PATTERN[i - 1], v=10 * i) for i in range(1, n + 1)]
    urows = []
    k = 100
    for i in range(1, n + 1):
        for j in range(i % 3):  # 1,2,0,1,2,0 children
            k += 1
            urows.append(dict(id=k, tid=i, w=j))
    return trows, urows


LIM_FORMS = ("int", "bind", "expr", "litexec", "litcol")


def lim_value(form, n, name):
    """-> (clause argument, execution params)"""
    if n is None:
        return None, {}
    if form == "int":
        return n, {}
    if form == "bind":
        return bindparam(name, type_=Integer), {name: n}
    if form == "expr":
        return literal(n // 2) + literal(n - n // 2), {}
    if form == "litexec":
        return bindparam(name, n, type_=Integer, literal_execute=True), {}
    if form == "litcol":
        return literal_column(str(n)), {}
    raise AssertionError(form)


def apply_lim(stmt, lim):
    """lim = dict(lf, l, of, o[, fetch=(ties, percent)]) -> (stmt, params)"""
    params = {}
    if lim.get("slice") is not None:
        a, b = lim["slice"]
        return stmt.slice(a, b), params
    lv, p = lim_value(lim["lf"], lim["l"], "lp")
    params.update(p)
    ov, p = lim_value(lim["of"], lim["o"], "op")
    params.update(p)
    if lv is not None:
        if lim.get("fetch"):
            ties, percent = lim["fetch"]
            stmt = stmt.fetch(lv, with_ties=ties, percent=percent)
        else:
            stmt = stmt.limit(lv)
    if ov is not None:
        stmt = stmt.offset(ov)
    return stmt, params


NOLIM = dict(lf="int", l=None, of="int", o=None)

# shape -> (ordered?, limited select is the outermost select?)
LIM_SHAPES = {
    "plain": dict(ordered=True, top=True),
    "desc2": dict(ordered=True, top=True),
    "tieorder": dict(ordered=True, top=True),  # ORDER BY g only: used for WITH TIES (parse level) only
    "join": dict(ordered=True, top=True),
    "outerjoin": dict(ordered=True, top=True),
    "subq_out": dict(ordered=True, top=True),
    "distinct": dict(ordered=True, top=True),
    "groupby": dict(ordered=True, top=True),
    "where_bind": dict(ordered=True, top=True),
    "subq_in": dict(ordered=True, top=False),
    "cte_in": dict(ordered=True, top=False),
    "in_subq": dict(ordered=True, top=False),
    "union": dict(ordered=True, top=True, compound=True),
    "nested": dict(ordered=True, top=True, nested=True),
}
NESTED_INNER = (1, 5)  # inner select of "nested" keeps rows [1:5]


def build_lim(shape, lim, t, u):
    """fresh (statement, params) for a shape with the row limit applied at the
    place the shape defines"""
    if shape == "plain":
        return apply_lim(select(t.c.id, t.c.g).order_by(t.c.id), lim)
    if shape == "desc2":
        return apply_lim(select(t.c.id, t.c.g).order_by(t.c.g.desc(), t.c.id), lim)
    if shape == "tieorder":
        return apply_lim(select(t.c.g, t.c.g).order_by(t.c.g), lim)
    if shape == "join":
        return apply_lim(select(t.c.id, u.c.id).join(u, t.c.id == u.c.tid).order_by(t.c.id, u.c.id.desc()), lim)
    if shape == "outerjoin":
        return apply_lim(select(t.c.id, u.c.id).outerjoin(u, t.c.id == u.c.tid).order_by(t.c.id, u.c.id), lim)
    if shape == "subq_out":
        sub = select(t.c.id, t.c.g).where(t.c.id > 0).subquery("sq")
        return apply_lim(select(sub.c.id, sub.c.g).order_by(sub.c.id.desc()), lim)
    if shape == "distinct":
        return apply_lim(select(t.c.g).distinct().order_by(t.c.g), lim)
    if shape == "groupby":
        return apply_lim(select(t.c.g, func.count(t.c.id)).group_by(t.c.g).having(func.count(t.c.id) >= 1).order_by(t.c.g.desc()), lim)
    if shape == "where_bind":
        # binds before and after the limit binds (positional ordering)
        stmt, p = apply_lim(select(t.c.id, literal(5)).where(t.c.v >= bindparam("w", type_=Integer)).order_by(t.c.id + literal(0)), lim)
        p = dict(p, w=10)
        return stmt, p
    if shape == "subq_in":
        inner, p = apply_lim(select(t.c.id, t.c.g).order_by(t.c.id), lim)
        sub = inner.subquery("sq")
        return select(sub.c.id, sub.c.g).order_by(sub.c.id), p
    if shape == "cte_in":
        inner, p = apply_lim(select(t.c.id, t.c.g).order_by(t.c.id.desc()), lim)
        c = inner.cte("c")
        return select(c.c.id, c.c.g).order_by(c.c.id.desc()), p
    if shape == "in_subq":
        t2 = t.alias("t2")
        inner, p = apply_lim(select(t2.c.id).order_by(t2.c.id), lim)
        return select(t.c.id).where(t.c.id.in_(inner)).order_by(t.c.id), p
    if shape == "union":
        un = union_all(select(t.c.id, t.c.g).where(t.c.id <= 3), select(t.c.id + 10, t.c.g).where(t.c.id >= 3))
        return apply_lim(un.order_by(un.selected_columns.id), lim)
    if shape == "nested":
        a, b = NESTED_INNER
        inner = select(t.c.id, t.c.g).order_by(t.c.id).limit(b - a).offset(a).subquery("sq")
        return apply_lim(select(inner.c.id, inner.c.g).order_by(inner.c.id), lim)
    raise AssertionError(shape)


# --------------------------------------------------------------------------
# 4. C04: bind-position family
# --------------------------------------------------------------------------

from sqlalchemy import and_  # noqa: E402
from sqlalchemy import case as sa_case  # noqa: E402
from sqlalchemy import column as sa_column  # noqa: E402
from sqlalchemy import delete  # noqa: E402
from sqlalchemy import exists  # noqa: E402
from sqlalchemy import insert  # noqa: E402
from sqlalchemy import text  # noqa: E402
from sqlalchemy import tuple_  # noqa: E402
from sqlalchemy import update  # noqa: E402
from sqlalchemy import values as sa_values  # noqa: E402
from sqlalchemy.dialects.sqlite import insert as sqlite_insert  # noqa: E402

BIND_DDL = """
CREATE TABLE IF NOT EXISTS t (id INTEGER PRIMARY KEY, a INTEGER, b INTEGER, s TEXT);
CREATE TABLE IF NOT EXISTS u (id INTEGER PRIMARY KEY, tid INTEGER, w INTEGER);
"""
BIND_RESET = BIND_DDL + """
DELETE FROM t; DELETE FROM u;
INSERT INTO t (id, a, b, s) VALUES (1,0,5,'x'),(2,1,4,'y'),(3,2,3,'x%'),(4,3,2,'z'),(5,4,1,NULL),(6,5,0,'y');
INSERT INTO u (id, tid, w) VALUES (1,1,10),(2,1,20),(3,2,30),(4,4,40),(5,6,50);
"""

# names that need escaping; chosen so that no two of them (nor pN) collide after
# SQLAlchemy's character replacement -- collisions are explored separately by
# the name-pair family (NAME_PAIR_ALPHABET)
WEIRD_NAMES = ("x", "a.b", "c[1]", "d%e", "f g", "h:i", "1x", "q(z)", "%s", "j.k")
NAME_PAIR_ALPHABET = ("x", "a.b", "a b", "a_b", "a[b", "a:b", "aCb", "a%b", "aPb", "a(b", "aAb", "a)b", "aZb")


def bind_meta():
    m = MetaData()
    t = Table("t", m, Column("id", Integer, primary_key=True), Column("a", Integer), Column("b", Integer), Column("s", String))
    u = Table("u", m, Column("id", Integer, primary_key=True), Column("tid", Integer), Column("w", Integer))
    return m, t, u


def bind_name(scheme, i):
    if scheme == 0:
        return "p%d" % i
    if scheme == 1:
        return WEIRD_NAMES[i % len(WEIRD_NAMES)]
    return WEIRD_NAMES[(i * 3 + 4) % len(WEIRD_NAMES)]


class BindMaker:
    """B(i) -> the i-th named bind of the statement (same object when asked
    twice), carrying V[i] either inside the bind (mode 'embedded') or in
    ``params`` (mode 'params'); cfg['le'] == i marks it literal_execute"""

    def __init__(self, cfg, V):
        self.cfg, self.V = cfg, V
        self.made = {}
        self.params = {}

    def __call__(self, i, type_=Integer, expanding=False):
        if i in self.made:
            return self.made[i]
        name = bind_name(self.cfg["ns"], i)
        kw = dict(type_=type_)
        if expanding:
            kw["expanding"] = True
        if self.cfg.get("le") == i or (self.cfg.get("le") == "all" and not expanding):
            kw["literal_execute"] = True
        if self.cfg["mode"] == "embedded":
            bp = bindparam(name, self.V[i], **kw)
        else:
            bp = bindparam(name, **kw)
            self.params[name] = self.V[i]
        self.made[i] = bp
        return bp


# shape -> (number of named binds, default value vector, kind, extra)
def _inlist(cfg):
    return [1, 2, 4][: cfg.get("inlen", 2)]


def build_bind(shape, cfg, V=None, t=None, u=None):
    """-> dict(stmt, params, kind) ; fresh constructs each call"""
    if t is None:
        _, t, u = bind_meta()
    spec = BIND_SHAPES[shape]
    V = list(spec["V"] if V is None else V)
    if spec.get("inlist") is not None:
        V[spec["inlist"]] = _inlist(cfg)
    B = BindMaker(cfg, V)
    stmt = spec["fn"](B, V, t, u, cfg)
    return dict(stmt=stmt, params=dict(B.params), kind=spec["kind"], nbinds=len(V))


def _sel_basic(B, V, t, u, cfg):
    return select(B(0).label("c0"), t.c.id, (t.c.a + B(3)).label("c3")).where(t.c.a > B(1)).where(t.c.b < B(2)).order_by(t.c.id)


def _sel_having(B, V, t, u, cfg):
    return (
        select(t.c.s, func.count(t.c.id).label("n"), B(4).label("k"))
        .where(t.c.a >= B(0))
        .group_by(t.c.s)
        .having(func.count(t.c.id) < B(1))
        .order_by(func.coalesce(t.c.s, B(5, String)))
        .limit(B(2))
        .offset(B(3))
    )


def _cte_first(B, V, t, u, cfg):
    c = select(t.c.id, (t.c.a + B(0)).label("x")).where(t.c.b > B(1)).cte("c")
    return select(B(2).label("k"), c.c.id, c.c.x).where(c.c.id != B(3)).order_by(c.c.id)


def _cte_in_subq(B, V, t, u, cfg):
    c = select(u.c.tid, (u.c.w + B(2)).label("w2")).where(u.c.w > B(3)).cte("cu")
    return select(t.c.id, B(0).label("k")).where(t.c.a >= B(1)).where(t.c.id.in_(select(c.c.tid).where(c.c.w2 != B(4)))).order_by(t.c.id)


def _two_ctes(B, V, t, u, cfg):
    c1 = select(t.c.id.label("id"), B(0).label("m")).where(t.c.a < B(1)).cte("c1")
    c2 = select(c1.c.id, (c1.c.m + B(2)).label("m2")).where(c1.c.id > B(3)).cte("c2")
    return select(B(4).label("k"), c2.c.id, c2.c.m2).order_by(c2.c.id)


def _nesting_cte(B, V, t, u, cfg):
    inner = select(t.c.id, (t.c.b + B(0)).label("bb")).where(t.c.a != B(1)).cte("inner_c", nesting=True)
    outer = select(inner.c.id, inner.c.bb, B(2).label("z")).where(inner.c.bb > B(3)).cte("outer_c")
    return select(B(4).label("k"), outer.c.id, outer.c.bb, outer.c.z).order_by(outer.c.id)


def _recursive_cte(B, V, t, u, cfg):
    r = select(B(0).label("n")).cte("r", recursive=True)
    r = r.union_all(select(r.c.n + B(1)).where(r.c.n < B(2)))
    return select(B(3).label("k"), r.c.n).order_by(r.c.n)


def _scalar_subq(B, V, t, u, cfg):
    sq = select(func.max(u.c.w) + B(0)).where(u.c.tid == t.c.id).where(u.c.w > B(1)).scalar_subquery()
    return (
        select(t.c.id, sq.label("m"), B(2).label("k"))
        .where(exists(select(u.c.id).where(u.c.tid == t.c.id).where(u.c.w != B(3))))
        .order_by(t.c.id)
    )


def _from_subq_join(B, V, t, u, cfg):
    sub = select(u.c.tid, (u.c.w * B(0)).label("ww")).where(u.c.w >= B(1)).subquery("su")
    return (
        select(t.c.id, sub.c.ww, B(2).label("k"))
        .join(sub, and_(t.c.id == sub.c.tid, sub.c.ww > B(3)))
        .where(t.c.a < B(4))
        .order_by(t.c.id, sub.c.ww)
    )


def _expanding_in(B, V, t, u, cfg):
    return select(t.c.id, B(0).label("k")).where(t.c.a.in_(B(1, expanding=True))).where(t.c.b != B(2)).order_by(t.c.id + B(3))


def _expanding_notin_cte(B, V, t, u, cfg):
    c = select(t.c.id, t.c.a).where(t.c.a.not_in(B(1, expanding=True))).where(t.c.b > B(0)).cte("c")
    return select(B(2).label("k"), c.c.id).where(c.c.a < B(3)).order_by(c.c.id)


def _in_direct(B, V, t, u, cfg):
    n = cfg.get("inlen", 2)
    pairs = [(0, 5), (2, 3), (4, 1)][: max(n, 1)]  # (empty tuple-IN is C07's business)
    return (
        select(t.c.id, B(0).label("k"))
        .where(t.c.a.in_([0, 2, 3, 4][: n + 1]))
        .where(tuple_(t.c.a, t.c.b).in_(pairs))
        .where(t.c.id != B(1))
        .order_by(t.c.id)
    )


def _repeated(B, V, t, u, cfg):
    b0 = B(0)
    return select(t.c.id, b0.label("k"), B(1).label("j")).where(t.c.a >= b0).where(t.c.b < B(2)).where(t.c.id != b0).order_by(t.c.id)


def _union_limit(B, V, t, u, cfg):
    s1 = select(t.c.id, B(0).label("k")).where(t.c.a < B(1))
    s2 = select((u.c.id + B(2)).label("id"), B(3)).where(u.c.w > B(4))
    un = union_all(s1, s2)
    return un.order_by(un.selected_columns.id).limit(B(5)).offset(B(6))


def _percent(B, V, t, u, cfg):
    return (
        select(t.c.id, (t.c.a % B(0)).label("m"), literal_column("'50%'").label("pc"), B(1).label("k"))
        .where(t.c.s.like(B(2, String)))
        .where(t.c.s != literal_column("'%s'"))
        .order_by(t.c.id)
    )


def _text_stmt(B, V, t, u, cfg):
    # text(): names are fixed by the :name syntax; p0 used twice; a modulo and a literal % sign
    st = text("SELECT id, :p0 AS k, a + :p1 AS x, id % 2 AS par, '10%' AS pc FROM t WHERE a > :p0 - 80 AND b < :p2 ORDER BY id")
    if B.cfg["mode"] == "embedded":
        return st.bindparams(bindparam("p0", V[0], type_=Integer), bindparam("p1", V[1], type_=Integer), bindparam("p2", V[2], type_=Integer))
    B.params.update(p0=V[0], p1=V[1], p2=V[2])
    return st


def _case_between(B, V, t, u, cfg):
    return select(
        t.c.id,
        sa_case((t.c.a.between(B(0), B(1)), B(2)), else_=B(3)).label("c"),
        func.coalesce(t.c.s, B(4, String)).label("s2"),
    ).order_by(t.c.id)


def _values_construct(B, V, t, u, cfg):
    v = sa_values(sa_column("n", Integer), sa_column("m", Integer), name="v").data([(B(0), B(1)), (B(2), B(3))]).cte("vc")
    return select(B(4).label("k"), v.c.n, v.c.m).where(v.c.n > B(5)).order_by(v.c.n)


def _ins_values_expr(B, V, t, u, cfg):
    return insert(t).values(id=B(0), a=B(1) + 1, b=func.abs(B(2)), s=B(3, String)).returning(t.c.id, t.c.a + B(4), t.c.s)


def _ins_from_select(B, V, t, u, cfg):
    return insert(u).from_select(["id", "tid", "w"], select(t.c.id + B(0), t.c.id, B(1)).where(t.c.a > B(2))).returning(u.c.id, u.c.w - B(3))


def _ins_cte(B, V, t, u, cfg):
    c = select(t.c.id, (t.c.a + B(0)).label("x")).where(t.c.b < B(1)).cte("c")
    return insert(u).from_select(["id", "tid", "w"], select(c.c.id + B(2), c.c.id, c.c.x * B(3)))


def _ins_on_conflict(B, V, t, u, cfg):
    st = sqlite_insert(t).values(id=B(0), a=B(1), b=B(2))
    return st.on_conflict_do_update(index_elements=["id"], set_=dict(a=st.excluded.a + B(3), b=B(4)), where=(t.c.b > B(5)))


def _upd_where(B, V, t, u, cfg):
    return update(t).where(t.c.id.in_([B(0), B(1)])).values(a=t.c.a + B(2), b=B(3)).returning(t.c.id, t.c.a, t.c.b - B(4))


def _upd_corr(B, V, t, u, cfg):
    sq = select(func.max(u.c.w) + B(0)).where(u.c.tid == t.c.id).scalar_subquery()
    return update(t).values(a=sq, s=B(3, String)).where(t.c.b > B(1)).where(exists(select(u.c.id).where(u.c.tid == t.c.id).where(u.c.w > B(2))))


def _upd_from(B, V, t, u, cfg):
    return update(t).values(a=u.c.w + B(0), b=B(2)).where(t.c.id == u.c.tid).where(u.c.w > B(1))


def _del_where(B, V, t, u, cfg):
    return delete(t).where(t.c.a.between(B(0), B(1))).where(t.c.id.not_in(select(u.c.tid).where(u.c.w > B(2)))).returning(t.c.id, t.c.b + B(3))


def _many_ins_binds(B, V, t, u, cfg):
    return insert(t).values(id=B(0), a=B(1) + 1, b=func.abs(B(2)), s=B(3, String))


def _many_ins_returning(B, V, t, u, cfg):
    return insert(t).values(id=B(0), a=B(1), b=B(2)).returning(t.c.id, t.c.b)


def _many_ins_returning_extra(B, V, t, u, cfg):
    sq = select(func.max(u.c.w) + B(2)).scalar_subquery()
    return insert(t).values(id=B(0), a=B(1), b=sq, s=func.lower(B(3, String))).returning(t.c.id, t.c.b, t.c.s, sort_by_parameter_order=True)


def _many_ins_returning_const(B, V, t, u, cfg):
    # a bind outside VALUES whose value is embedded (same for every parameter set): numeric styles number it first
    k = bindparam("kk", 1000, type_=Integer)
    return insert(t).values(id=B(0), a=B(1), b=B(2), s=func.lower(bindparam("ss", "CONST", type_=String))).returning(t.c.id, t.c.b + k, t.c.s)


def _many_upd(B, V, t, u, cfg):
    return update(t).where(t.c.id == B(0)).values(a=B(1), b=t.c.b + B(2))


def _many_del(B, V, t, u, cfg):
    return delete(t).where(t.c.id == B(0)).where(t.c.a < B(1))


BIND_SHAPES = {
    "sel_basic": dict(fn=_sel_basic, V=[11, 1, 4, 12], kind="select"),
    "sel_having": dict(fn=_sel_having, V=[1, 3, 2, 1, 21, "zz"], kind="select"),
    "cte_first": dict(fn=_cte_first, V=[100, 2, 31, 3], kind="select"),
    "cte_in_subq": dict(fn=_cte_in_subq, V=[41, 1, 200, 15, 240], kind="select"),
    "two_ctes": dict(fn=_two_ctes, V=[50, 4, 7, 1, 91], kind="select"),
    "nesting_cte": dict(fn=_nesting_cte, V=[60, 2, 93, 61, 94], kind="select"),
    "recursive_cte": dict(fn=_recursive_cte, V=[1, 2, 7, 55], kind="select"),
    "scalar_subq": dict(fn=_scalar_subq, V=[1000, 10, 77, 30], kind="select"),
    "from_subq_join": dict(fn=_from_subq_join, V=[2, 20, 78, 45, 5], kind="select"),
    "expanding_in": dict(fn=_expanding_in, V=[79, None, 3, 6], kind="select", inlist=1),
    "expanding_notin_cte": dict(fn=_expanding_notin_cte, V=[0, None, 83, 5], kind="select", inlist=1),
    "in_direct": dict(fn=_in_direct, V=[84, 6], kind="select", inlen=True),
    "repeated": dict(fn=_repeated, V=[2, 71, 5], kind="select"),
    "union_limit": dict(fn=_union_limit, V=[85, 4, 100, 86, 15, 5, 1], kind="select"),
    "percent": dict(fn=_percent, V=[3, 81, "x%"], kind="select"),
    "text_stmt": dict(fn=_text_stmt, V=[82, 7, 5], kind="select", fixed_names=True),
    "case_between": dict(fn=_case_between, V=[1, 3, 87, 88, "nul"], kind="select"),
    "values_construct": dict(fn=_values_construct, V=[5, 6, 7, 8, 89, 5], kind="select"),
    "ins_values_expr": dict(fn=_ins_values_expr, V=[7, 13, -14, "n%w", 1000], kind="dml"),
    "ins_from_select": dict(fn=_ins_from_select, V=[100, 17, 2, 3], kind="dml"),
    "ins_cte": dict(fn=_ins_cte, V=[10, 4, 200, 3], kind="dml"),
    "ins_on_conflict": dict(fn=_ins_on_conflict, V=[2, 18, 19, 100, 20, 3], kind="dml"),
    "upd_where": dict(fn=_upd_where, V=[2, 5, 100, 22, 1], kind="dml"),
    "upd_corr": dict(fn=_upd_corr, V=[1000, 1, 15, "upd"], kind="dml"),
    "upd_from": dict(fn=_upd_from, V=[500, 25, 23], kind="dml"),
    "del_where": dict(fn=_del_where, V=[1, 4, 35, 300], kind="dml"),
    "many_ins_binds": dict(fn=_many_ins_binds, kind="many", V=[7, 13, -14, "q"], sets=[[7, 13, -14, "q"], [8, 15, 16, None], [9, -17, -18, "r%"]]),
    "many_ins_returning": dict(fn=_many_ins_returning, kind="many", V=[7, 13, 14], sets=[[7, 13, 14], [8, 15, 16], [9, 17, 18]]),
    "many_ins_returning_extra": dict(
        fn=_many_ins_returning_extra, kind="many", V=[7, 13, 14, "Q"], sets=[[9, 13, 14, "Q"], [7, 15, 16, "R"], [8, 17, 18, "S"]]
    ),
    "many_ins_returning_const": dict(fn=_many_ins_returning_const, kind="many", V=[7, 13, 14], sets=[[7, 13, 14], [8, 15, 16], [9, 17, 18]]),
    "many_upd": dict(fn=_many_upd, kind="many", V=[2, 31, 100], sets=[[2, 31, 100], [5, 32, 200], [3, 33, 300]]),
    "many_del": dict(fn=_many_del, kind="many", V=[2, 3], sets=[[2, 3], [6, 3], [4, 9]]),
}


def bind_cfgs(shape, d):
    """all configurations within <= d deviations of the base, simplest first"""
    spec = BIND_SHAPES[shape]
    nb = len(spec["V"])
    feats = []
    if not spec.get("fixed_names"):
        feats.append(("ns", [0, 1, 2]))
    le_idx = [None] + [i for i in range(nb) if not (spec.get("inlist") == i)]
    if spec["kind"] == "many" or spec.get("fixed_names"):
        le_idx = [None]
    feats.append(("le", le_idx))
    if spec.get("inlist") is not None or spec.get("inlen"):
        feats.append(("inlen", [2, 0, 1, 3]))
    feats.append(("mode", ["params"] if spec["kind"] == "many" else ["embedded", "params"]))
    import itertools as _it

    out = []
    for combo in _it.product(*[vals for _, vals in feats]):
        dev = sum(1 for (name, vals), v in zip(feats, combo) if v != vals[0])
        if dev <= d:
            out.append((dev, dict((name, v) for (name, _), v in zip(feats, combo))))
    out.sort(key=lambda x: x[0])
    res = []
    for _, cfg in out:
        cfg.setdefault("ns", 0)
        res.append(cfg)
    return res


# --------------------------------------------------------------------------
# 5. C16: schema family
# --------------------------------------------------------------------------

from sqlalchemy import Index  # noqa: E402
from sqlalchemy.schema import CreateIndex  # noqa: E402
from sqlalchemy.schema import CreateTable  # noqa: E402
from sqlalchemy.schema import DropTable  # noqa: E402

SCHEMAS = (None, "s1", "s2")
DB_NAMES = ("main", "s1", "s2")


def schema_reset_script():
    """tables a, b in main / s1 / s2 with rows that tell the schemas apart; table c exists nowhere"""
    out = []
    for i, db in enumerate(DB_NAMES):
        base = (i + 1) * 100
        out.append("DROP TABLE IF EXISTS %s.c;" % db)
        out.append("DROP INDEX IF EXISTS %s.ix_a_v;" % db)
        out.append("DROP TABLE IF EXISTS %s.d;" % db)
        out.append("DROP TABLE IF EXISTS %s.e;" % db)
        if db == "s1":
            out.append("CREATE TABLE s1.e (id INTEGER PRIMARY KEY);")  # e exists in s1 only (checkfirst must look at the mapped schema)
        out.append("CREATE TABLE IF NOT EXISTS %s.a (id INTEGER PRIMARY KEY, v TEXT);" % db)
        out.append("CREATE TABLE IF NOT EXISTS %s.b (id INTEGER PRIMARY KEY, aid INTEGER, w TEXT);" % db)
        out.append("CREATE TABLE %s.d (id INTEGER PRIMARY KEY, v TEXT);" % db)
        out.append("DELETE FROM %s.a; DELETE FROM %s.b;" % (db, db))
        out.append("INSERT INTO %s.a (id, v) VALUES (%d, '%s-a1'), (%d, '%s-a2');" % (db, base + 1, db, base + 2, db))
        out.append("INSERT INTO %s.b (id, aid, w) VALUES (%d, %d, '%s-b1'), (%d, %d, '%s-b2'), (%d, 999, '%s-b3');" % (
            db, base + 11, base + 1, db, base + 12, base + 1, db, base + 13, db))
    return "\n".join(out)


def schema_tables(sa_schema, sb_schema):
    """fresh MetaData with a@sa_schema, b@sb_schema, c@sa_schema (not created), d@sb_schema"""
    m = MetaData()
    a = Table("a", m, Column("id", Integer, primary_key=True), Column("v", String), schema=sa_schema)
    b = Table("b", m, Column("id", Integer, primary_key=True), Column("aid", Integer), Column("w", String), schema=sb_schema)
    c = Table("c", m, Column("id", Integer, primary_key=True), Column("v", String), schema=sa_schema)
    Index("ix_c_v", c.c.v)  # explicit name: auto-generated index names embed the table's own schema
    d = Table("d", m, Column("id", Integer, primary_key=True), Column("v", String), schema=sb_schema)
    Table("e", m, Column("id", Integer, primary_key=True), schema=sa_schema)
    return m, a, b, c, d


def _sx_select(a, b, c, d):
    return select(a.c.id, a.c.v).order_by(a.c.id), None


def _sx_join(a, b, c, d):
    return select(a.c.v, b.c.w).join(b, a.c.id == b.c.aid).order_by(b.c.id), None


def _sx_exists_cte(a, b, c, d):
    cte = select(b.c.aid).where(b.c.w.like("%b1")).cte("cb")
    return select(a.c.id, a.c.v).where(a.c.id.in_(select(cte.c.aid))).where(exists(select(b.c.id).where(b.c.aid == a.c.id))).order_by(a.c.id), None


def _sx_alias_subq(a, b, c, d):
    a2 = a.alias("a2")
    sub = select(b.c.aid, func.count(b.c.id).label("n")).group_by(b.c.aid).subquery("sb")
    return select(a2.c.v, sub.c.n).outerjoin(sub, a2.c.id == sub.c.aid).order_by(a2.c.id), None


def _sx_insert(a, b, c, d):
    return insert(a).values(id=7, v="new").returning(a.c.id, a.c.v), None


def _sx_insert_many(a, b, c, d):
    return insert(a).returning(a.c.id), [dict(id=7, v="n7"), dict(id=8, v="n8")]


def _sx_insert_from_select(a, b, c, d):
    return insert(a).from_select(["id", "v"], select(b.c.id + 1000, b.c.w).where(b.c.aid != 999)), None


def _sx_update(a, b, c, d):
    return update(a).values(v=a.c.v + "!").where(exists(select(b.c.id).where(b.c.aid == a.c.id))), None


def _sx_delete(a, b, c, d):
    return delete(b).where(b.c.aid.in_(select(a.c.id))).returning(b.c.id), None


def _sx_create_table(a, b, c, d):
    return CreateTable(c), None


def _sx_create_index(a, b, c, d):
    return CreateIndex(Index("ix_a_v", a.c.v)), None


def _sx_drop_table(a, b, c, d):
    return DropTable(d), None


SCHEMA_SHAPES = {
    "select": dict(fn=_sx_select, kind="select"),
    "join": dict(fn=_sx_join, kind="select"),
    "exists_cte": dict(fn=_sx_exists_cte, kind="select"),
    "alias_subq": dict(fn=_sx_alias_subq, kind="select"),
    "insert": dict(fn=_sx_insert, kind="dml"),
    "insert_many": dict(fn=_sx_insert_many, kind="dml"),
    "insert_from_select": dict(fn=_sx_insert_from_select, kind="dml"),
    "update": dict(fn=_sx_update, kind="dml"),
    "delete": dict(fn=_sx_delete, kind="dml"),
    "create_table": dict(fn=_sx_create_table, kind="ddl"),
    "create_index": dict(fn=_sx_create_index, kind="ddl"),
    "drop_table": dict(fn=_sx_drop_table, kind="ddl"),
    "create_all": dict(fn=None, kind="meta"),
    "table_create": dict(fn=None, kind="meta"),
    "table_drop": dict(fn=None, kind="meta"),
}

ABSENT = "<absent>"


def all_maps():
    """every function {None,s1,s2} -> {None,s1,s2,absent}, fewest keys first"""
    import itertools as _it

    out = []
    targets = (ABSENT, None, "s1", "s2")
    for combo in _it.product(targets, repeat=3):
        m = {k: v for k, v in zip(SCHEMAS, combo) if v != ABSENT}
        out.append(m)
    out.sort(key=lambda m: (len(m), sum(1 for k, v in m.items() if k != v), repr(sorted(m.items(), key=repr))))
    return out


def quick_maps():
    """the maps with <= 1 key plus six two-key maps (swap, None<->s1, chain, identity, None-identity)"""
    ms = [m for m in all_maps() if len(m) <= 1]
    ms += [{"s1": "s2", "s2": "s1"}, {None: "s1", "s1": None}, {None: "s2", "s2": "s1"}, {"s1": "s1", "s2": "s2"}, {None: None, "s1": "s2"}, {None: "s1", "s2": "s2"}]
    return ms


def map_key(m):
    return "{" + ", ".join("%r: %r" % (k, m[k]) for k in SCHEMAS if k in m) + "}"
