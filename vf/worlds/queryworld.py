"""queryworld -- small declarative mappings + exhaustive data-set enumerators
used by C40 / C41 (and the fixed Person hierarchy for C40's polymorphic
queries; C42 generates its own hierarchies).

Worlds (every ``build_*`` call returns a *fresh* registry so that mapper-level
loader configuration can be varied without touching other users)::

    U1  Parent -(children)-> Child -(grandchildren)-> Grandchild   one-to-many chain,
        Child.parent / Grandchild.child many-to-one back references
    U2  Item <-(tags / items)-> Tag     many-to-many through ``item_tag``
    U3  Node.children / Node.parent     self-referential adjacency list
    U4  Company -(employees)-> Person <- Engineer (joined) / Manager (joined) / Boss (single on Manager);
        Engineer -(machines)-> Machine

Relationship collections of U1/U3/U4 are ordered by ``(v DESC, id DESC)`` -- an
order that differs from rowid order, so a loader that drops ORDER BY is
observable; U2 collections are unordered (compared as multisets).

A *data set* is a plain dict ``{table_name: [row dict, ...]}``; ``load(conn,
world, data)`` empties the tables and inserts the rows with Core.
Enumerators are deterministic and simplest-first.
"""
from __future__ import annotations

import itertools

from sqlalchemy import Column
from sqlalchemy import ForeignKey
from sqlalchemy import Integer
from sqlalchemy import String
from sqlalchemy import Table
from sqlalchemy.orm import declarative_base
from sqlalchemy.orm import deferred
from sqlalchemy.orm import query_expression
from sqlalchemy.orm import relationship


class World:
    """names -> mapped classes, plus metadata and table order for loading"""

    def __init__(self, name, base, classes, tables):
        self.name = name
        self.base = base
        self.metadata = base.metadata
        self.classes = classes
        self.tables = tables  # insertion order (parents first)
        for k, v in classes.items():
            setattr(self, k, v)

    def __repr__(self):
        return "World(%s)" % self.name


# --------------------------------------------------------------------- U1


def build_u1(lazy1="select", lazy2="select", lazy_back="select", innerjoin1=False, innerjoin2=False, innerjoin_back=False):
    """Parent -> Child -> Grandchild.  lazy1/lazy2: mapper-level loader for
    Parent.children / Child.grandchildren; lazy_back: for Child.parent"""
    Base = declarative_base()

    class Parent(Base):
        __tablename__ = "parent"
        id = Column(Integer, primary_key=True)
        name = Column(String)
        x = Column(Integer)
        notes = deferred(Column(String))
        expr = query_expression()
        children = relationship(
            "Child", back_populates="parent", order_by="(Child.v.desc(), Child.id.desc())", lazy=lazy1, innerjoin=innerjoin1
        )

        def __repr__(self):
            return "Parent(%r)" % self.id

    class Child(Base):
        __tablename__ = "child"
        id = Column(Integer, primary_key=True)
        parent_id = Column(ForeignKey("parent.id"))
        name = Column(String)
        v = Column(Integer)
        notes = deferred(Column(String))
        expr = query_expression()
        parent = relationship("Parent", back_populates="children", lazy=lazy_back, innerjoin=innerjoin_back)
        grandchildren = relationship(
            "Grandchild", back_populates="child", order_by="(Grandchild.v.desc(), Grandchild.id.desc())", lazy=lazy2,
            innerjoin=innerjoin2,
        )

        def __repr__(self):
            return "Child(%r)" % self.id

    class Grandchild(Base):
        __tablename__ = "grandchild"
        id = Column(Integer, primary_key=True)
        child_id = Column(ForeignKey("child.id"))
        name = Column(String)
        v = Column(Integer)
        child = relationship("Child", back_populates="grandchildren")

        def __repr__(self):
            return "Grandchild(%r)" % self.id

    Base.registry.configure()
    return World("U1", Base, dict(Parent=Parent, Child=Child, Grandchild=Grandchild), ["parent", "child", "grandchild"])


PNAMES = ("b", None, "a")  # parent names by id-1: ties-free but not id-ordered, one NULL
PX = (1, 0, None)
CV = (1, None, 2, 1)  # child v by id-1: duplicates + NULL, desc order != id order
CNAMES = ("k", "j", None, "k")
GV = (None, 3, 3)
GNAMES = ("z", "y", "z")


def _u1_rows(child_fk, grand_fk, nparents):
    return dict(
        parent=[dict(id=i + 1, name=PNAMES[i], x=PX[i], notes="pn%d" % (i + 1)) for i in range(nparents)],
        child=[
            dict(id=i + 1, parent_id=fk, name=CNAMES[i], v=CV[i], notes="cn%d" % (i + 1)) for i, fk in enumerate(child_fk)
        ],
        grandchild=[dict(id=i + 1, child_id=fk, name=GNAMES[i], v=GV[i]) for i, fk in enumerate(grand_fk)],
    )


def u1_distributions(max_parents, max_children):
    """every distribution of <= max_children children over <= max_parents
    parents: each child's FK ranges over {NULL, 1..nparents}; parents may stay
    childless.  Simplest first (fewer parents, fewer children)."""
    for np_ in range(1, max_parents + 1):
        for nc in range(0, max_children + 1):
            for fks in itertools.product([None] + list(range(1, np_ + 1)), repeat=nc):
                yield np_, fks


def u1_datasets(max_parents=3, max_children=4, max_grand=3, grand_mode="all"):
    """(key, data).  Children: every distribution (see above).  Grandchildren:
    grand_mode='all': every distribution of <= max_grand grandchildren over the
    children (+NULL); 'cover': three patterns per child distribution -- none,
    one for every child (so INNER JOIN eager loading is applicable while
    parents may be childless), and a skewed one (all on the last child plus a
    NULL FK); 'cover2': the same without the empty pattern (kept only for
    two children)."""
    for np_, fks in u1_distributions(max_parents, max_children):
        nc = len(fks)
        if grand_mode == "all":
            gl = []
            for ng in range(0, max_grand + 1):
                gl.extend(itertools.product([None] + list(range(1, nc + 1)), repeat=ng))
        elif grand_mode == "cover2":
            if nc == 0:
                gl = [()]
            else:
                gl = [tuple([nc] * (max_grand - 1) + [None])]
                if nc <= max_grand:
                    gl.insert(0, tuple(range(nc, 0, -1)))
                if nc == 2:
                    gl.append(())
        else:
            gl = [()]
            if 0 < nc <= max_grand:
                gl.append(tuple(range(nc, 0, -1)))  # every child has exactly one, reversed ids
            if nc:
                gl.append(tuple([nc] * (max_grand - 1) + [None]))
            if nc >= 2 and max_grand >= 3:
                gl.append((1, nc, 1))
        seen = set()
        for g in gl:
            g = tuple(g)[:max_grand]
            if g in seen:
                continue
            seen.add(g)
            yield ("U1", np_, fks, g), _u1_rows(fks, g, np_)


# --------------------------------------------------------------------- U2


def build_u2(lazy1="select", lazy2="select"):
    Base = declarative_base()
    item_tag = Table(
        "item_tag",
        Base.metadata,
        Column("item_id", ForeignKey("item.id"), primary_key=True),
        Column("tag_id", ForeignKey("tag.id"), primary_key=True),
    )

    class Item(Base):
        __tablename__ = "item"
        id = Column(Integer, primary_key=True)
        name = Column(String)
        x = Column(Integer)
        notes = deferred(Column(String))
        expr = query_expression()
        tags = relationship("Tag", secondary=item_tag, back_populates="items", lazy=lazy1)

        def __repr__(self):
            return "Item(%r)" % self.id

    class Tag(Base):
        __tablename__ = "tag"
        id = Column(Integer, primary_key=True)
        name = Column(String)
        v = Column(Integer)
        notes = deferred(Column(String))
        expr = query_expression()
        items = relationship("Item", secondary=item_tag, back_populates="tags", lazy=lazy2)

        def __repr__(self):
            return "Tag(%r)" % self.id

    Base.registry.configure()
    w = World("U2", Base, dict(Item=Item, Tag=Tag), ["item", "tag", "item_tag"])
    w.item_tag = item_tag
    return w


def u2_datasets(max_items=3, max_tags=2, max_links=None):
    """every subset of item x tag links for <= max_items items and <= max_tags
    tags (items/tags without links included)"""
    for ni in range(1, max_items + 1):
        for nt in range(0, max_tags + 1):
            pairs = [(i, t) for i in range(1, ni + 1) for t in range(1, nt + 1)]
            for k in range(0, len(pairs) + 1):
                if max_links is not None and k > max_links:
                    break
                for links in itertools.combinations(pairs, k):
                    yield ("U2", ni, nt, links), dict(
                        item=[dict(id=i + 1, name=PNAMES[i], x=PX[i], notes="in%d" % (i + 1)) for i in range(ni)],
                        tag=[dict(id=t + 1, name=CNAMES[t], v=CV[t], notes="tn%d" % (t + 1)) for t in range(nt)],
                        item_tag=[dict(item_id=i, tag_id=t) for i, t in links],
                    )


# --------------------------------------------------------------------- U3


def build_u3(lazy1="select", lazy_back="select", join_depth=None):
    Base = declarative_base()

    class Node(Base):
        __tablename__ = "node"
        id = Column(Integer, primary_key=True)
        parent_id = Column(ForeignKey("node.id"))
        name = Column(String)
        v = Column(Integer)
        notes = deferred(Column(String))
        expr = query_expression()
        children = relationship(
            "Node", back_populates="parent", order_by="(Node.v.desc(), Node.id.desc())", lazy=lazy1, join_depth=join_depth
        )
        parent = relationship("Node", back_populates="children", remote_side=[id], lazy=lazy_back, join_depth=join_depth)

        def __repr__(self):
            return "Node(%r)" % self.id

    Base.registry.configure()
    return World("U3", Base, dict(Node=Node), ["node"])


def u3_datasets(max_nodes=4, cycles=False):
    """every parent function on <= max_nodes nodes: forests (parent id < own
    id) and, with cycles=True, every function into {NULL} + all nodes
    (self-loops and cycles included)"""
    for n in range(1, max_nodes + 1):
        if cycles:
            choices = [[None] + list(range(1, n + 1)) for i in range(n)]
        else:
            choices = [[None] + list(range(1, i + 1)) for i in range(n)]
        for fks in itertools.product(*choices):
            yield ("U3", n, fks), dict(
                node=[dict(id=i + 1, parent_id=fk, name=CNAMES[i], v=CV[i], notes="nn%d" % (i + 1)) for i, fk in enumerate(fks)]
            )


# --------------------------------------------------------------------- U4


def build_u4(lazy1="select", lazy_back="select", lazy_m="select", polymorphic_load=None, with_poly=None):
    """Company -> Person hierarchy.  polymorphic_load: None | 'inline' |
    'selectin' applied to Engineer and Manager; with_poly: None | '*' for the
    base mapper's with_polymorphic"""
    Base = declarative_base()

    class Company(Base):
        __tablename__ = "company"
        id = Column(Integer, primary_key=True)
        name = Column(String)
        employees = relationship(
            "Person", back_populates="company", order_by="(Person.v.desc(), Person.id.desc())", lazy=lazy1
        )

        def __repr__(self):
            return "Company(%r)" % self.id

    pargs = dict(polymorphic_on="type", polymorphic_identity="person")
    if with_poly:
        pargs["with_polymorphic"] = with_poly

    class Person(Base):
        __tablename__ = "person"
        id = Column(Integer, primary_key=True)
        company_id = Column(ForeignKey("company.id"))
        name = Column(String)
        v = Column(Integer)
        type = Column(String)
        notes = deferred(Column(String))
        company = relationship("Company", back_populates="employees", lazy=lazy_back)
        __mapper_args__ = pargs

        def __repr__(self):
            return "%s(%r)" % (type(self).__name__, self.id)

    sub = dict(polymorphic_load=polymorphic_load) if polymorphic_load else {}

    class Engineer(Person):
        __tablename__ = "engineer"
        id = Column(ForeignKey("person.id"), primary_key=True)
        lang = Column(String)
        machines = relationship("Machine", back_populates="owner", order_by="Machine.id.desc()", lazy=lazy_m)
        __mapper_args__ = dict(polymorphic_identity="engineer", **sub)

    class Manager(Person):
        __tablename__ = "manager"
        id = Column(ForeignKey("person.id"), primary_key=True)
        level = Column(Integer)
        golf = Column(String)  # used by Boss (single-table on manager)
        __mapper_args__ = dict(polymorphic_identity="manager", **sub)

    class Boss(Manager):
        __mapper_args__ = dict(polymorphic_identity="boss", **sub)

    class Machine(Base):
        __tablename__ = "machine"
        id = Column(Integer, primary_key=True)
        engineer_id = Column(ForeignKey("engineer.id"))
        name = Column(String)
        owner = relationship("Engineer", back_populates="machines")

        def __repr__(self):
            return "Machine(%r)" % self.id

    Base.registry.configure()
    return World(
        "U4",
        Base,
        dict(Company=Company, Person=Person, Engineer=Engineer, Manager=Manager, Boss=Boss, Machine=Machine),
        ["company", "person", "engineer", "manager", "machine"],
    )


U4_TYPES = ("person", "engineer", "manager", "boss")
PV = (1, None, 2, 1)
PERS_NAMES = ("k", "j", None, "k")


def _u4_rows(ncomp, persons, machines):
    """persons: tuple of (type, company fk); machines: tuple of person-index
    (1-based, must be an engineer) or None"""
    d = dict(company=[dict(id=i + 1, name=PNAMES[i]) for i in range(ncomp)], person=[], engineer=[], manager=[], machine=[])
    for i, (t, fk) in enumerate(persons):
        pid = i + 1
        d["person"].append(dict(id=pid, company_id=fk, name=PERS_NAMES[i], v=PV[i], type=t, notes="pn%d" % pid))
        if t == "engineer":
            d["engineer"].append(dict(id=pid, lang=("py", None, "c", "py")[i]))
        elif t in ("manager", "boss"):
            d["manager"].append(dict(id=pid, level=(3, 1, None, 3)[i], golf=("g%d" % pid) if t == "boss" else None))
    for j, fk in enumerate(machines):
        d["machine"].append(dict(id=j + 1, engineer_id=fk, name="m%d" % (j + 1)))
    return d


def u4_datasets(max_comp=2, max_persons=3, max_machines=2, type_sets="all"):
    """every assignment of (type, company-or-NULL) to <= max_persons persons
    over <= max_comp companies; machines: every distribution of <=
    max_machines machines over the engineers (+NULL).  type_sets='all': all
    4**n type vectors; 'sorted': non-decreasing type vectors only (persons are
    otherwise distinguished by id/v, so this is a symmetry *cut*, reported as
    such by the caller)."""
    for nc in range(1, max_comp + 1):
        for npers in range(0, max_persons + 1):
            tvs = itertools.product(range(4), repeat=npers)
            for tv in tvs:
                if type_sets == "sorted" and list(tv) != sorted(tv):
                    continue
                for fks in itertools.product([None] + list(range(1, nc + 1)), repeat=npers):
                    persons = tuple((U4_TYPES[t], fk) for t, fk in zip(tv, fks))
                    engs = [i + 1 for i, (t, _) in enumerate(persons) if t == "engineer"]
                    for nm in range(0, max_machines + 1):
                        if nm and not engs:
                            break
                        for ms in itertools.product([None] + engs, repeat=nm):
                            yield ("U4", nc, persons, ms), _u4_rows(nc, persons, ms)


# --------------------------------------------------------------------- loading


def load(conn, world, data):
    """empty all tables of the world, insert ``data``; conn is a Core
    Connection inside a transaction (caller commits)"""
    md = world.metadata
    for t in reversed(world.tables):
        conn.execute(md.tables[t].delete())
    for t in world.tables:
        rows = data.get(t)
        if rows:
            conn.execute(md.tables[t].insert(), rows)
