"""Recorder, evidence writer, known-finding matching, replay plumbing.

Driver contract (module ``vf.props.cNN``)::

    ID = "C19"; LEVEL = "exploration" | "model_checking" | "fault_enumeration"
    META = dict(engine=..., technique=..., level_text=..., level_note=...,
                design_ref=..., rule=..., assumptions=[...], bounds={tier: str})
    def shards(tier, seed) -> list            # optional, default [None]
    def run_shard(shard, tier, rec)           # explores one shard, records into rec
    def replay(case) -> list[(sig, detail)]   # re-executes exactly one recorded case

A violation is ``rec.violation(sig, detail, case)``: ``sig`` is the canonical
*minimal failing sub-case* signature used to match known findings, ``case`` a
JSON-able description that ``replay`` understands.
"""
from __future__ import annotations

import hashlib
import json
import os
import time
import traceback

ROOT = os.path.dirname(os.path.dirname(os.path.abspath(__file__)))
MAX_VIOL_PER_SHARD = 25
SA_DIR = os.path.join(os.environ["VF_REPO"], "lib", "sqlalchemy") if os.environ.get("VF_REPO") else "/repo/lib/sqlalchemy"
REPO = os.environ.get("VF_REPO") or "/repo"


def h64(obj) -> int:
    """stable 64-bit hash of a repr-able canonical object"""
    if not isinstance(obj, (bytes, str)):
        obj = repr(obj)
    if isinstance(obj, str):
        obj = obj.encode("utf8", "backslashreplace")
    return int.from_bytes(hashlib.blake2b(obj, digest_size=8).digest(), "big")


class StopShard(Exception):
    pass


class Rec:
    """per-shard recorder; picklable; merged deterministically in shard order"""

    def __init__(self, prop):
        self.prop = prop
        self.evaluations = 0
        self.nontrivial = set()
        self.states = set()
        self.transitions = 0
        self.traces = 0
        self.samples = []
        self.violations = []
        self.counters = {}
        self.outcomes = set()
        self.caps = []
        self.notes = []
        self._vsigs = set()

    # ---- counting
    def case(self, key=None, nontrivial=False, n=1):
        self.evaluations += n
        if nontrivial and key is not None:
            self.nontrivial.add(h64(key))

    def state(self, key) -> bool:
        k = h64(key)
        if k in self.states:
            return False
        self.states.add(k)
        return True

    def transition(self, n=1):
        self.transitions += n

    def trace(self, n=1):
        self.traces += n

    def outcome(self, key):
        self.outcomes.add(h64(key))

    def count(self, name, n=1):
        self.counters[name] = self.counters.get(name, 0) + n

    def sample(self, s, limit=6):
        if len(self.samples) < limit:
            self.samples.append(s)

    def cap(self, what):
        if what not in self.caps:
            self.caps.append(what)

    def note(self, s):
        if s not in self.notes:
            self.notes.append(s)

    # ---- violations
    def violation(self, sig, detail, case, kind=None):
        """kind: optional failure class; with simplest-first enumeration only
        the first (= minimal) case of each kind is kept per shard"""
        sig = str(sig)
        if kind is not None:
            if ("kind", kind) in self._vsigs:
                self.count("violating_cases")
                return
            self._vsigs.add(("kind", kind))
        if sig in self._vsigs:
            # same root cause already recorded in this shard; count only
            self.count("violating_cases")
            return
        self._vsigs.add(sig)
        self.count("violating_cases")
        self.violations.append(dict(sig=sig, detail=str(detail)[:4000], case=case))
        if len(self.violations) >= MAX_VIOL_PER_SHARD:
            self.cap("violation cap per shard reached (%d)" % MAX_VIOL_PER_SHARD)
            raise StopShard()

    # ---- merge
    def merge(self, other: "Rec"):
        self.evaluations += other.evaluations
        self.nontrivial |= other.nontrivial
        self.states |= other.states
        self.transitions += other.transitions
        self.traces += other.traces
        self.outcomes |= other.outcomes
        for s in other.samples:
            self.sample(s, limit=8)
        for k, v in other.counters.items():
            self.counters[k] = self.counters.get(k, 0) + v
        for c in other.caps:
            self.cap(c)
        for n in other.notes:
            self.note(n)
        for v in other.violations:
            if v["sig"] not in self._vsigs:
                self._vsigs.add(v["sig"])
                self.violations.append(v)


# --------------------------------------------------------------- findings


def load_findings():
    p = os.path.join(ROOT, "known_findings.json")
    if not os.path.exists(p):
        return []
    with open(p) as f:
        return json.load(f)["findings"]


def match_finding(findings, prop, sig):
    """only *open* findings suppress; 'fixed' entries suppress nothing"""
    for f in findings:
        if f.get("property") != prop or f.get("status") != "open":
            continue
        if f.get("signature") == sig:
            return f
    return None


# --------------------------------------------------------------- evidence


def write_evidence(mod, tier, seed, rec: Rec, wall, n_viol, known_seen, extra=None):
    meta = mod.META
    level = mod.LEVEL
    cov = {}
    cov["evaluations"] = rec.evaluations
    cov["distinct_nontrivial"] = len(rec.nontrivial)
    cov["rule"] = meta.get("rule", "")
    cov["samples"] = rec.samples or ["(no sample recorded)"]
    if level == "model_checking":
        cov["states"] = len(rec.states)
        cov["transitions"] = rec.transitions
        cov["traces_validated_against_impl"] = rec.traces
    cov["exhaustive"] = not rec.caps
    cov["bound"] = meta.get("bounds", {}).get(tier, "")
    cov["caps_hit"] = rec.caps
    cov["distinct_outcomes"] = len(rec.outcomes)
    cov["counters"] = dict(sorted(rec.counters.items()))
    cov["known_findings_seen"] = known_seen
    if rec.notes:
        cov["notes"] = rec.notes
    if extra:
        cov.update(extra)
    ev = dict(
        property_id=mod.ID,
        tier=tier,
        seed=seed,
        level=level,
        coverage=cov,
        assumptions=meta.get("assumptions", []),
        wall_s=round(wall, 3),
        violations=n_viol,
    )
    os.makedirs(os.path.join(ROOT, "evidence"), exist_ok=True)
    path = os.path.join(ROOT, "evidence", mod.ID + ".json")
    tmp = path + ".tmp%d" % os.getpid()
    with open(tmp, "w") as f:
        json.dump(ev, f, indent=1, sort_keys=True, default=repr)
        f.write("\n")
    os.replace(tmp, path)
    return path


def write_replay(prop, v):
    os.makedirs(os.path.join(ROOT, "replays"), exist_ok=True)
    body = dict(property=prop, signature=v["sig"], detail=v["detail"], case=v["case"])
    blob = json.dumps(body, indent=1, sort_keys=True, default=repr)
    sha = hashlib.sha1(blob.encode()).hexdigest()[:12]
    path = os.path.join(ROOT, "replays", "%s-%s.json" % (prop, sha))
    with open(path, "w") as f:
        f.write(blob + "\n")
    return path


def classify_crash(tb_text):
    """a crash whose innermost frame is inside /repo is the implementation
    failing on a well-formed case -> violation; a watchdog timeout while a
    sqlalchemy frame is on the stack is a hang -> violation; anything else is a
    harness error (exit 2, never a VIOLATION line)"""
    import re

    tb_text = tb_text.replace(SA_DIR, "/repo/lib/sqlalchemy")
    frames = re.findall(r'File "([^"]+)", line \d+, in (\S+)', tb_text)
    if not frames:
        return None
    exc_line = tb_text.strip().splitlines()[-1]
    exc_type = exc_line.split(":")[0].strip()
    if exc_type.endswith("ShardTimeout"):
        frames = [f for f in frames if f[1] not in ("_on_alarm", "_on_cpu_limit")]
        sa = [f for f in frames if "/repo/lib/sqlalchemy" in f[0]]
        if not sa:
            return None
        fn = os.path.relpath(sa[-1][0], "/repo/lib/sqlalchemy")
        return "hang in %s:%s" % (fn, sa[-1][1])
    last = frames[-1]
    if "/repo/lib/sqlalchemy" in last[0]:
        fn = os.path.relpath(last[0], "/repo/lib/sqlalchemy")
        return "crash %s in %s:%s" % (exc_type, fn, last[1])
    return None
