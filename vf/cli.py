"""./check <ID> [--tier quick|thorough] [--replay FILE] [--jobs N] [--shard I]"""
from __future__ import annotations

import argparse
import importlib
import json
import multiprocessing as mp
import signal
import os
import sys
import time
import traceback

from . import purepy

purepy.install()

from . import core  # noqa: E402


class ShardTimeout(BaseException):
    pass


class HarnessTimeout(BaseException):
    pass


def _on_cpu_limit(signum, frame):
    raise ShardTimeout("shard exceeded its CPU-time watchdog limit")


def _on_wall_limit(signum, frame):
    raise HarnessTimeout("shard exceeded its wall-clock backstop")


def _run_one(args):
    modname, shard, tier, idx = args
    mod = importlib.import_module(modname)
    rec = core.Rec(mod.ID)
    t0 = time.time()
    # The watchdog counts *CPU time of this worker* (ITIMER_PROF), so a loaded machine cannot
    # turn a slow run into a "hang" verdict; a much longer wall-clock backstop only ever yields a
    # harness error (exit 2), never a violation.
    limit = getattr(mod, "SHARD_TIMEOUT", {}).get(tier, 300 if tier == "quick" else 1800)
    signal.signal(signal.SIGPROF, _on_cpu_limit)
    signal.signal(signal.SIGALRM, _on_wall_limit)
    signal.setitimer(signal.ITIMER_PROF, limit)
    signal.alarm(max(limit * 20, 4 * 3600))
    try:
        try:
            mod.run_shard(shard, tier, rec)
        finally:
            signal.setitimer(signal.ITIMER_PROF, 0)
            signal.alarm(0)
    except core.StopShard:
        pass
    except BaseException:
        tb = traceback.format_exc()
        sig = core.classify_crash(tb)
        if sig is None:
            return idx, None, tb, time.time() - t0
        rec._vsigs.discard(sig)
        try:
            rec.violation(sig, tb, dict(kind="crash", shard=shard, tier=tier))
        except core.StopShard:
            pass
    return idx, rec, None, time.time() - t0


def main(argv=None):
    ap = argparse.ArgumentParser()
    ap.add_argument("id")
    ap.add_argument("--tier", default=None, choices=["quick", "thorough"])
    ap.add_argument("--replay", default=None)
    ap.add_argument("--jobs", type=int, default=int(os.environ.get("VF_JOBS", "0")))
    ap.add_argument("--shard", type=int, default=None, help="debug: run only this shard index")
    ap.add_argument("--no-evidence", action="store_true")
    ap.add_argument("--timing", action="store_true", help="print the slowest shards")
    ap.add_argument("--all", action="store_true", help="also list the signatures beyond the first 10 violations")
    ap.add_argument("--filter", default=None, help="debug: only shards whose repr contains this text (never writes evidence)")
    a = ap.parse_args(argv)
    tier = a.tier or os.environ.get("VERIF_TIER") or "quick"
    if tier not in ("quick", "thorough"):
        tier = "quick"
    try:
        seed = int(os.environ.get("VERIF_SEED", "0"))
    except ValueError:
        seed = 0
    pid = a.id.upper()
    modname = "vf.props." + pid.lower()
    try:
        mod = importlib.import_module(modname)
    except ModuleNotFoundError as e:
        if e.name == modname:
            print("no such check:", pid)
            return 2
        raise

    if a.replay:
        with open(a.replay) as f:
            body = json.load(f)
        case = body["case"]
        if isinstance(case, dict) and case.get("kind") == "crash":
            rec = core.Rec(pid)
            try:
                mod.run_shard(case["shard"], case.get("tier", "quick"), rec)
                res = [(v["sig"], v["detail"]) for v in rec.violations]
            except core.StopShard:
                res = [(v["sig"], v["detail"]) for v in rec.violations]
            except BaseException:
                tb = traceback.format_exc()
                res = [(core.classify_crash(tb) or "harness error", tb)]
        else:
            res = mod.replay(case)
        print("replay of", a.replay)
        print(" recorded signature:", body.get("signature"))
        if not res:
            print(" result: property holds on this case (no violation reproduced)")
            return 0
        for sig, detail in res:
            print(" reproduced:", sig)
            print("   ", str(detail).replace("\n", "\n    "))
        print("VIOLATION property=%s replay=%s" % (pid, os.path.abspath(a.replay)))
        return 1

    t0 = time.time()
    shards = list(mod.shards(tier, seed)) if hasattr(mod, "shards") else [None]
    if seed and len(shards) > 1:
        r = seed % len(shards)
        order = list(range(r, len(shards))) + list(range(r))
    else:
        order = list(range(len(shards)))
    if a.shard is not None:
        order = [a.shard]
    if a.filter:
        order = [i for i in order if a.filter in repr(shards[i])]
    jobs = a.jobs or min(16, os.cpu_count() or 1)
    jobs = max(1, min(jobs, len(order)))
    work = [(modname, shards[i], tier, i) for i in order]
    results = {}
    harness_errors = []
    timings = {}
    if jobs == 1:
        for w in work:
            idx, rec, err, dt = _run_one(w)
            results[idx] = rec
            timings[idx] = dt
            if err:
                harness_errors.append((idx, err))
    else:
        ctx = mp.get_context("fork")
        with ctx.Pool(jobs, maxtasksperchild=getattr(mod, "MAXTASKS", None)) as pool:
            for idx, rec, err, dt in pool.imap_unordered(_run_one, work, chunksize=1):
                results[idx] = rec
                timings[idx] = dt
                if err:
                    harness_errors.append((idx, err))
    if a.timing:
        for idx, dt in sorted(timings.items(), key=lambda t: -t[1])[:12]:
            print("  shard %d %r: %.1fs" % (idx, shards[idx], dt))
        print("  total shard seconds: %.1f" % sum(timings.values()))
    if harness_errors:
        for idx, err in harness_errors[:3]:
            sys.stderr.write("HARNESS ERROR in shard %r of %s:\n%s\n" % (shards[idx], pid, err))
        print("harness error: %d shard(s) failed; no verdict" % len(harness_errors))
        return 2
    total = core.Rec(pid)
    for idx in sorted(results):
        total.merge(results[idx])
    extra = None
    if hasattr(mod, "finish"):
        extra = mod.finish(tier, total)

    findings = core.load_findings()
    known_seen, fresh = [], []
    for v in total.violations:
        f = core.match_finding(findings, pid, v["sig"])
        if f:
            known_seen.append(v["sig"])
            print("KNOWN-FINDING: property=%s %s" % (pid, v["sig"]))
        else:
            fresh.append(v)
    rc = 0
    if a.all and len(fresh) > 10:
        for v in fresh[10:]:
            print("  (further) signature:", v["sig"])
    for v in fresh[:10]:
        path = core.write_replay(pid, v)
        print("  signature:", v["sig"])
        print("  detail:", v["detail"][:600].replace("\n", "\n    "))
        print("VIOLATION property=%s replay=%s" % (pid, path))
        rc = 1
    wall = time.time() - t0
    if not a.no_evidence and a.shard is None and not a.filter:
        core.write_evidence(mod, tier, seed, total, wall, len(fresh), known_seen, extra)
    lvl = mod.LEVEL
    if lvl == "model_checking":
        summ = "states=%d transitions=%d traces=%d" % (len(total.states), total.transitions, total.traces)
    else:
        summ = "evaluations=%d nontrivial=%d" % (total.evaluations, len(total.nontrivial))
    print(
        "%s tier=%s seed=%d shards=%d %s outcomes=%d caps=%s known=%d violations=%d wall=%.1fs"
        % (pid, tier, seed, len(order), summ, len(total.outcomes), total.caps or "none", len(known_seen), len(fresh), wall)
    )
    return rc


if __name__ == "__main__":
    sys.exit(main())
