"""Reference lexers for SQL string literals and quoted identifiers, per backend.

Small, boring, independent of SQLAlchemy.  Used by C05 (literal rendering) and
C06 (identifier quoting) to judge SQL rendered for backends that cannot be
executed in this sandbox.  A grammar describes how one backend *reads* text:

=================  =========  =======  ========  ==========  ==================
grammar            backslash  "..."    `...`     [...]       other
=================  =========  =======  ========  ==========  ==================
sqlite             no         ident    ident     ident (no   X'..'
                                                 escape)
postgresql         no         ident    --        --          E'..' U&'..' B'..' X'..' $tag$..$tag$, nested /* */
postgresql_scsoff  yes        ident    --        --          (standard_conforming_strings=off)
mysql / mariadb    yes        string   ident     --          N'..' X'..' B'..' _cs'..', '#' comments, "-- " needs a space
mysql_nobs         no         string   ident     --          (sql_mode NO_BACKSLASH_ESCAPES)
mysql_ansi         yes        ident    ident     --          (sql_mode ANSI_QUOTES)
mssql              no         ident    --        ident ]]    N'..'
oracle             no         ident*   --        --          N'..' q'[..]'   (* a quoted identifier cannot contain ")
=================  =========  =======  ========  ==========  ==================

`tokenize(text, grammar)` returns tokens (kind, text, value):
  str    string literal, value = decoded contents, .prefix = lower-cased prefix ('' / 'n' / 'e' ...)
  qid    quoted identifier, value = decoded name
  num    numeric literal
  word   bare identifier or keyword
  param  placeholder (:name  ?  $1  @name  %s  %(name)s)
  op     any other single character / multi-char operator
  comment
  bad    unterminated string / identifier / comment, or illegal character

Validation (done by the drivers at run time and counted in their evidence):
* the standard-string and "..."/`..`/[..] identifier parts are executed on
  SQLite 3.40 (`SELECT <literal>`, `SELECT 1 AS <ident>`), which shares them;
* the MySQL backslash grammar is checked against libmysqlclient's
  ``mysql_escape_string`` (MySQLdb), PyMySQL and mysql-connector encoders, the
  PostgreSQL grammars against psycopg's libpq-based ``sql.Literal`` /
  ``sql.Identifier`` and psycopg2's ``QuotedString``, MSSQL against
  ``pymssql._mssql.quote_simple_value`` -- all available offline.
"""
import re


class Grammar:
    def __init__(self, name, backslash=False, dq="ident", backtick=False, bracket=None, prefixes=(), dollar=False, hash_comment=False, dashdash_space=False, nested_comments=False, dq_escape=True, ident_start=r"[A-Za-z_\u0080-\U0010ffff]", ident_part=r"[A-Za-z0-9_$\u0080-\U0010ffff]", max_ident=None):
        self.name = name
        self.backslash = backslash
        self.dq = dq
        self.backtick = backtick
        self.bracket = bracket
        self.prefixes = dict(prefixes)
        self.dollar = dollar
        self.hash_comment = hash_comment
        self.dashdash_space = dashdash_space
        self.nested_comments = nested_comments
        self.dq_escape = dq_escape
        self.ident_start = re.compile(ident_start)
        self.ident_part = re.compile(ident_part)
        self.bare_re = re.compile("(?:%s)(?:%s)*\\Z" % (ident_start, ident_part))
        self.max_ident = max_ident

    def __repr__(self):
        return "<Grammar %s>" % self.name


_PG_PFX = dict(e="escape", b="std", x="std", n="std")
_MY_PFX = dict(n="same", x="same", b="same")
GRAMMARS = {
    "sqlite": Grammar("sqlite", backtick=True, bracket="noescape", prefixes=dict(x="std")),
    "postgresql": Grammar("postgresql", prefixes=_PG_PFX, dollar=True, nested_comments=True, max_ident=63),
    "postgresql_scsoff": Grammar("postgresql_scsoff", backslash=True, prefixes=_PG_PFX, dollar=True, nested_comments=True, max_ident=63),
    "mysql": Grammar("mysql", backslash=True, dq="string", backtick=True, prefixes=_MY_PFX, hash_comment=True, dashdash_space=True, ident_start=r"[A-Za-z0-9_$\u0080-\uffff]", ident_part=r"[A-Za-z0-9_$\u0080-\uffff]", max_ident=64),
    "mysql_nobs": Grammar("mysql_nobs", backslash=False, dq="string", backtick=True, prefixes=_MY_PFX, hash_comment=True, dashdash_space=True, ident_start=r"[A-Za-z0-9_$\u0080-\uffff]", ident_part=r"[A-Za-z0-9_$\u0080-\uffff]", max_ident=64),
    "mysql_ansi": Grammar("mysql_ansi", backslash=True, dq="ident", backtick=True, prefixes=_MY_PFX, hash_comment=True, dashdash_space=True, ident_start=r"[A-Za-z0-9_$\u0080-\uffff]", ident_part=r"[A-Za-z0-9_$\u0080-\uffff]", max_ident=64),
    "mssql": Grammar("mssql", bracket="double", prefixes=dict(n="std"), ident_start=r"[A-Za-z_@#\u0080-\uffff]", ident_part=r"[A-Za-z0-9_@#$\u0080-\uffff]", max_ident=128),
    "oracle": Grammar("oracle", prefixes=dict(n="std", q="oracle_q", nq="oracle_q"), dq_escape=False, ident_start=r"[A-Za-z\u0080-\uffff]", ident_part=r"[A-Za-z0-9_$#\u0080-\uffff]", max_ident=128),
}
GRAMMARS["mariadb"] = GRAMMARS["mysql"]


class Token(tuple):
    """(kind, text, value); .prefix for strings"""

    def __new__(cls, kind, text, value=None, prefix=""):
        t = tuple.__new__(cls, (kind, text, value))
        t.prefix = prefix
        return t

    kind = property(lambda s: s[0])
    text = property(lambda s: s[1])
    value = property(lambda s: s[2])


_MY_ESC = {"0": "\0", "'": "'", '"': '"', "b": "\b", "n": "\n", "r": "\r", "t": "\t", "Z": "\x1a", "\\": "\\"}
_PG_ESC = {"b": "\b", "f": "\f", "n": "\n", "r": "\r", "t": "\t"}
_NUM = re.compile(r"(?:\d+\.?\d*(?:[eE][+-]?\d+)?|\.\d+(?:[eE][+-]?\d+)?)")
_OPS = ("<=", ">=", "<>", "!=", "||", "::", ":=", "->>", "->", "==", "<<", ">>")


def _read_quoted(text, i, q, g, mode):
    """text[i] == q.  mode: 'std' (doubling only), 'mysql' / 'pg' (backslash escapes + doubling).
    returns (end index after closing quote, decoded value) or (None, None) if unterminated"""
    n = len(text)
    j = i + 1
    out = []
    while j < n:
        c = text[j]
        if c == q:
            if j + 1 < n and text[j + 1] == q:
                out.append(q)
                j += 2
                continue
            return j + 1, "".join(out)
        if c == "\\" and mode != "std":
            if j + 1 >= n:
                return None, None
            d = text[j + 1]
            if mode == "mysql":
                if d in _MY_ESC:
                    out.append(_MY_ESC[d])
                elif d in "%_":
                    out.append("\\" + d)
                else:
                    out.append(d)
                j += 2
                continue
            # postgresql escape string syntax
            if d in _PG_ESC:
                out.append(_PG_ESC[d])
                j += 2
            elif d in "01234567":
                m = re.compile(r"[0-7]{1,3}").match(text, j + 1)
                out.append(chr(int(m.group(0), 8) & 0xFF))
                j = m.end()
            elif d == "x" and re.compile(r"[0-9A-Fa-f]{1,2}").match(text, j + 2):
                m = re.compile(r"[0-9A-Fa-f]{1,2}").match(text, j + 2)
                out.append(chr(int(m.group(0), 16)))
                j = m.end()
            elif d == "u" and re.compile(r"[0-9A-Fa-f]{4}").match(text, j + 2):
                out.append(chr(int(text[j + 2 : j + 6], 16)))
                j += 6
            elif d == "U" and re.compile(r"[0-9A-Fa-f]{8}").match(text, j + 2):
                out.append(chr(int(text[j + 2 : j + 10], 16)))
                j += 10
            else:
                out.append(d)
                j += 2
            continue
        out.append(c)
        j += 1
    return None, None


def tokenize(text, g):
    if isinstance(g, str):
        g = GRAMMARS[g]
    toks = []
    i, n = 0, len(text)
    while i < n:
        c = text[i]
        if c in " \t\r\n\f\v":
            i += 1
            continue
        # comments
        if c == "-" and text.startswith("--", i) and (not g.dashdash_space or i + 2 >= n or text[i + 2] in " \t\r\n\f\v"):
            j = text.find("\n", i)
            j = n if j < 0 else j
            toks.append(Token("comment", text[i:j]))
            i = j
            continue
        if c == "#" and g.hash_comment:
            j = text.find("\n", i)
            j = n if j < 0 else j
            toks.append(Token("comment", text[i:j]))
            i = j
            continue
        if c == "/" and text.startswith("/*", i):
            depth, j = 1, i + 2
            while j < n and depth:
                if text.startswith("*/", j):
                    depth -= 1
                    j += 2
                elif g.nested_comments and text.startswith("/*", j):
                    depth += 1
                    j += 2
                else:
                    j += 1
            if depth:
                toks.append(Token("bad", text[i:], "unterminated comment"))
                return toks
            toks.append(Token("comment", text[i:j]))
            i = j
            continue
        # string literal, with optional prefix handled at the word branch
        if c == "'" or (c == '"' and g.dq == "string"):
            mode = ("mysql" if g.name.startswith("mysql") else "pg") if g.backslash else "std"
            j, val = _read_quoted(text, i, c, g, mode)
            if j is None:
                toks.append(Token("bad", text[i:], "unterminated string"))
                return toks
            # adjacent-literal concatenation is not merged; each literal is its own token
            toks.append(Token("str", text[i:j], val))
            i = j
            continue
        if c == '"':
            if g.dq_escape:
                j, val = _read_quoted(text, i, '"', g, "std")
            else:
                k = text.find('"', i + 1)
                j, val = (None, None) if k < 0 else (k + 1, text[i + 1 : k])
            if j is None or val == "":
                toks.append(Token("bad", text[i:], "unterminated or empty quoted identifier"))
                return toks
            toks.append(Token("qid", text[i:j], val))
            i = j
            continue
        if c == "`" and g.backtick:
            j, val = _read_quoted(text, i, "`", g, "std")
            if j is None or val == "":
                toks.append(Token("bad", text[i:], "unterminated or empty quoted identifier"))
                return toks
            toks.append(Token("qid", text[i:j], val))
            i = j
            continue
        if c == "[" and g.bracket:
            if g.bracket == "double":
                j = i + 1
                out = []
                ok = False
                while j < n:
                    if text[j] == "]":
                        if j + 1 < n and text[j + 1] == "]":
                            out.append("]")
                            j += 2
                            continue
                        ok = True
                        j += 1
                        break
                    out.append(text[j])
                    j += 1
                val = "".join(out)
            else:
                k = text.find("]", i + 1)
                ok = k >= 0
                j = k + 1
                val = text[i + 1 : k]
            if not ok or val == "":
                toks.append(Token("bad", text[i:], "unterminated or empty bracket identifier"))
                return toks
            toks.append(Token("qid", text[i:j], val))
            i = j
            continue
        # dollar quoting / $n parameters
        if c == "$":
            m = re.compile(r"\$\d+").match(text, i)
            if m:
                toks.append(Token("param", m.group(0)))
                i = m.end()
                continue
            if g.dollar:
                m = re.compile(r"\$(?:[A-Za-z_\u0080-\U0010ffff][A-Za-z0-9_\u0080-\U0010ffff]*)?\$").match(text, i)
                if m:
                    k = text.find(m.group(0), m.end())
                    if k < 0:
                        toks.append(Token("bad", text[i:], "unterminated dollar quote"))
                        return toks
                    toks.append(Token("str", text[i : k + len(m.group(0))], text[m.end() : k], prefix="$"))
                    i = k + len(m.group(0))
                    continue
        # numbers
        if c.isdigit() or (c == "." and i + 1 < n and text[i + 1].isdigit()):
            m = _NUM.match(text, i)
            # mysql allows identifiers starting with a digit; a number followed by ident chars is then a word
            j = m.end()
            if j < n and g.ident_part.match(text[j]) and not (text[j] in "eE"):
                k = j
                while k < n and g.ident_part.match(text[k]):
                    k += 1
                kind = "word" if g.ident_start.match(c) else "bad"
                toks.append(Token(kind, text[i:k], text[i:k]))
                i = k
                continue
            toks.append(Token("num", m.group(0), m.group(0)))
            i = j
            continue
        # words (and prefixed string literals)
        if g.ident_start.match(c):
            j = i + 1
            while j < n and g.ident_part.match(text[j]):
                j += 1
            w = text[i:j]
            wl = w.lower()
            if j < n and text[j] == "'" and (wl in g.prefixes or (g.name.startswith("mysql") and wl.startswith("_"))):
                pm = g.prefixes.get(wl, "same")
                if pm == "oracle_q":
                    if j + 2 >= n:
                        toks.append(Token("bad", text[i:], "unterminated q-quote"))
                        return toks
                    od = text[j + 1]
                    cd = {"[": "]", "(": ")", "{": "}", "<": ">"}.get(od, od)
                    k = text.find(cd + "'", j + 2)
                    if k < 0:
                        toks.append(Token("bad", text[i:], "unterminated q-quote"))
                        return toks
                    toks.append(Token("str", text[i : k + 2], text[j + 2 : k], prefix=wl))
                    i = k + 2
                    continue
                if pm == "escape":
                    mode = "pg"
                elif pm == "same":
                    mode = ("mysql" if g.name.startswith("mysql") else "pg") if g.backslash else "std"
                else:
                    mode = "pg" if (g.backslash and g.name.startswith("postgresql") and wl == "n") else "std"
                k, val = _read_quoted(text, j, "'", g, mode)
                if k is None:
                    toks.append(Token("bad", text[i:], "unterminated string"))
                    return toks
                toks.append(Token("str", text[i:k], val, prefix=wl))
                i = k
                continue
            toks.append(Token("word", w, w))
            i = j
            continue
        # parameters
        if c == ":" and i + 1 < n and re.match(r"[A-Za-z_]", text[i + 1]) and not text.startswith("::", i):
            m = re.compile(r":[A-Za-z_][A-Za-z0-9_]*").match(text, i)
            toks.append(Token("param", m.group(0)))
            i = m.end()
            continue
        if c == "%":
            m = re.compile(r"%(?:s|\([^)]*\)s)").match(text, i)
            if m:
                toks.append(Token("param", m.group(0)))
                i = m.end()
                continue
        if c == "?":
            toks.append(Token("param", "?"))
            i += 1
            continue
        for op in _OPS:
            if text.startswith(op, i):
                toks.append(Token("op", op))
                i += len(op)
                break
        else:
            if c == "\\" or c == "\0" or (ord(c) < 32):
                toks.append(Token("bad", c, "illegal character"))
            else:
                toks.append(Token("op", c))
            i += 1
    return toks


def shape(toks):
    """token-kind structure of a statement: literals by kind, everything else by (case-folded) text"""
    out = []
    for t in toks:
        if t.kind == "str":
            out.append("str" + (":" + t.prefix if t.prefix else ""))
        elif t.kind in ("num", "qid"):
            out.append(t.kind)
        elif t.kind == "bad":
            out.append("bad:" + str(t.value))
        elif t.kind == "comment":
            out.append("comment")
        else:
            out.append(t.text.lower())
    return tuple(out)


# ---------------------------------------------------------------- the DBAPI's %-formatting


_FMT = re.compile(r"%(%|s|\([^)]*\)s|.|\Z)", re.S)


def driver_format(sql, paramstyle):
    """what a `format` / `pyformat` DBAPI sends to the server for a statement that is executed
    with parameters: ``%%`` -> ``%``; placeholders are kept (as %s / %(x)s, lexed as 'param').
    Returns (text, error) where error names a stray single '%' (the driver would raise or
    mis-substitute)."""
    if paramstyle not in ("format", "pyformat"):
        return sql, None
    err = []

    def rep(m):
        x = m.group(1)
        if x == "%":
            return "\0PCT\0"
        if x == "s" or x.endswith(")s"):
            return m.group(0)
        err.append("stray %% before %r" % x)
        return m.group(0)

    out = _FMT.sub(rep, sql)
    return out.replace("\0PCT\0", "%"), (err[0] if err else None)


# ---------------------------------------------------------------- reference encoders (for validating the lexers)


def encode_string(value, g):
    if isinstance(g, str):
        g = GRAMMARS[g]
    v = value
    if g.backslash:
        v = v.replace("\\", "\\\\")
    return "'" + v.replace("'", "''") + "'"


def encode_ident(name, g, style='"'):
    if isinstance(g, str):
        g = GRAMMARS[g]
    if style == "[":
        return "[" + (name.replace("]", "]]") if g.bracket == "double" else name) + "]"
    return style + name.replace(style, style * 2) + style


def representable_ident(name, g):
    """can the backend store `name` as an identifier at all?"""
    if isinstance(g, str):
        g = GRAMMARS[g]
    if name == "" or "\0" in name:
        return False
    if g.name == "oracle" and '"' in name:
        return False
    if g.name.startswith("mysql") or g.name == "mariadb":
        if name.endswith(" ") or any(ord(ch) > 0xFFFF for ch in name):
            return False
    if g.max_ident is not None and len(name) > g.max_ident:
        return False
    return True


def lex_single(text, g):
    """tokenise text that is supposed to be exactly one token; returns the token or a 'bad' token"""
    toks = tokenize(text, g)
    if len(toks) != 1:
        return Token("bad", text, "expected one token, got %d: %r" % (len(toks), [t[:2] for t in toks][:6]))
    return toks[0]


# ---------------------------------------------------------------- self-validation helpers used by the drivers


def validate_against_sqlite(strings, idents, conn):
    """executes the shared grammar on SQLite; returns (n_checked, list of disagreements)"""
    bad = []
    n = 0
    g = GRAMMARS["sqlite"]
    for s in strings:
        lit = encode_string(s, g)
        if "\0" in s:
            continue
        got = conn.execute("SELECT " + lit).fetchone()[0]
        t = lex_single(lit, g)
        n += 1
        if got != s or t.kind != "str" or t.value != s:
            bad.append(("string", s, lit, got, tuple(t)))
    for name in idents:
        if not representable_ident(name, g):
            continue
        for style in ('"', "`", "["):
            if style == "[" and "]" in name:
                continue
            q = encode_ident(name, g, style)
            cur = conn.execute("SELECT 1 AS " + q)
            got = cur.description[0][0]
            t = lex_single(q, g)
            n += 1
            if got != name or t.kind != "qid" or t.value != name:
                bad.append(("ident", name, q, got, tuple(t)))
    return n, bad


def vendor_encoders():
    """offline vendor encoders: name -> (grammar name, kind, fn(str) -> sql text)"""
    out = {}
    try:
        from MySQLdb import _mysql

        out["libmysqlclient.mysql_escape_string"] = ("mysql", "str", lambda s: "'" + _mysql.escape_string(s.encode("utf8")).decode("utf8") + "'")
    except Exception:
        pass
    try:
        from pymysql.converters import escape_string as _pes

        out["pymysql.escape_string"] = ("mysql", "str", lambda s: "'" + _pes(s) + "'")
    except Exception:
        pass
    try:
        from mysql.connector.conversion import MySQLConverter

        _mc = MySQLConverter()
        out["mysql.connector.escape"] = ("mysql", "str", lambda s: "'" + _mc.escape(s) + "'")
    except Exception:
        pass
    try:
        from psycopg import sql as _psql

        out["psycopg.sql.Literal"] = ("postgresql", "str", lambda s: _psql.Literal(s).as_string(None).strip())
        out["psycopg.sql.Identifier"] = ("postgresql", "qid", lambda s: _psql.Identifier(s).as_string(None))
    except Exception:
        pass
    try:
        from psycopg2.extensions import QuotedString

        def _q2(s):
            q = QuotedString(s)
            q.encoding = "utf8"
            return q.getquoted().decode("utf8")

        out["psycopg2.QuotedString"] = ("postgresql_scsoff", "str", _q2)
    except Exception:
        pass
    try:
        from pymssql import _mssql

        out["pymssql.quote_simple_value"] = ("mssql", "str", lambda s: _mssql.quote_simple_value(s).decode("utf8"))
    except Exception:
        pass
    return out


def validate_against_vendors(strings):
    """returns (n_checked, disagreements, names of encoders used)"""
    bad = []
    n = 0
    enc = vendor_encoders()
    for name, (gname, kind, fn) in sorted(enc.items()):
        g = GRAMMARS[gname]
        for s in strings:
            if kind == "qid" and ("\0" in s or s == ""):
                continue
            if "\0" in s and not gname.startswith("mysql"):
                continue
            try:
                text = fn(s)
            except Exception:
                continue
            t = lex_single(text, g)
            n += 1
            if t.kind != kind or t.value != s:
                bad.append((name, s, text, tuple(t)))
    return n, bad, sorted(enc)
