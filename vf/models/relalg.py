"""relalg -- a tiny Python relational evaluator (C41's oracle).

Deliberately boring: relations are Python lists of *environments* (dict
``alias -> row dict | None``; ``None`` = the NULL-extended side of an outer
join), operators are list comprehensions, predicates are callables returning
SQL three-valued truth (``True`` / ``False`` / ``None`` = UNKNOWN).  Column
predicates are evaluated by ``vf.models.sql3vl`` (independent 3VL reference
evaluator, itself validated against SQLite by C01).  Imports nothing from
SQLAlchemy.

    scan(rows, alias)                         -> relation
    join(L, R, on, kind)                      kind in inner | left | full
    where(L, pred)
    project(L, fn)                            -> list of tuples (a bag)
    distinct(bag) / union(a, b) / union_all(a, b)
    group_count(L, keyfn, countfn)            -> bag of key + (count of non-NULL countfn values,)
    exists(rel)                               -> bool
    and3 / or3 / not3, col_pred(ast, alias)   3VL combinators / sql3vl leaf
"""
from __future__ import annotations

from . import sql3vl


def and3(*vs):
    if any(v is False for v in vs):
        return False
    if any(v is None for v in vs):
        return None
    return True


def or3(*vs):
    if any(v is True for v in vs):
        return True
    if any(v is None for v in vs):
        return None
    return False


def not3(v):
    return None if v is None else (not v)


def eq3(a, b):
    if a is None or b is None:
        return None
    return a == b


_COMPILED = {}


def col_pred(ast, alias):
    """3VL predicate over the row bound to ``alias``; a NULL-extended row
    makes every column NULL"""
    f = _COMPILED.get(ast)
    if f is None:
        f = _COMPILED[ast] = sql3vl.compile_ast(ast)
    cols = sql3vl.columns_of(ast)
    nullrow = {c: None for c in cols}

    def p(env):
        row = env.get(alias)
        v = f(nullrow if row is None else row)
        if v is None:
            return None
        return bool(v)

    return p


def scan(rows, alias):
    return [{alias: r} for r in rows]


def join(L, R, on, kind="inner"):
    """L, R relations with disjoint aliases; on(env) -> 3VL"""
    out = []
    r_aliases = sorted({a for env in R for a in env}) if R else []
    l_aliases = sorted({a for env in L for a in env}) if L else []
    matched_r = set()
    for le in L:
        hit = False
        for i, re_ in enumerate(R):
            env = dict(le)
            env.update(re_)
            if on(env) is True:
                out.append(env)
                hit = True
                matched_r.add(i)
        if not hit and kind in ("left", "full"):
            env = dict(le)
            for a in r_aliases:
                env[a] = None
            out.append(env)
    if kind == "full":
        for i, re_ in enumerate(R):
            if i not in matched_r:
                env = {a: None for a in l_aliases}
                env.update(re_)
                out.append(env)
    return out


def where(L, pred):
    return [env for env in L if pred(env) is True]


def project(L, fn):
    return [tuple(fn(env)) for env in L]


def distinct(bag):
    out, seen = [], set()
    for t in bag:
        k = _key(t)
        if k not in seen:
            seen.add(k)
            out.append(t)
    return out


def _key(t):
    return tuple((type(v).__name__, v) if v is not None else ("null", 0) for v in t)


def union(a, b):
    return distinct(list(a) + list(b))


def union_all(a, b):
    return list(a) + list(b)


def group_count(L, keyfn, countfn):
    """GROUP BY keyfn(env) with COUNT(countfn(env)) -- NULLs form one group,
    COUNT ignores NULL values; countfn=None means COUNT(*)"""
    groups = {}
    order = []
    for env in L:
        k = tuple(keyfn(env))
        kk = _key(k)
        if kk not in groups:
            groups[kk] = [k, 0]
            order.append(kk)
        if countfn is None or countfn(env) is not None:
            groups[kk][1] += 1
    return [tuple(groups[kk][0]) + (groups[kk][1],) for kk in order]


def exists(rel):
    return len(rel) > 0


def bag_equal(a, b):
    """multiset equality of two bags of tuples (NULL-aware, type-aware for
    bool/int confusion is NOT wanted: SQLite returns 1 for TRUE)"""
    return sorted(map(_skey, a)) == sorted(map(_skey, b))


def _skey(t):
    return tuple((0, "") if v is None else (1, repr(v)) for v in t)
