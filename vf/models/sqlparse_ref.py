"""sqlparse_ref -- precedence-climbing reference parser for rendered SQL *expressions*.

Used by C01 part (3): the SQL text SQLAlchemy emits for a backend that cannot be executed here is parsed with
that backend's own operator precedence / associativity and turned back into a ``vf.models.sql3vl`` AST, which
is then evaluated.  Independent of SQLAlchemy (imports nothing from it).

    parse(sql, dialect, params=None) -> ast          raises ParseError
    GRAMMARS[dialect]                                 the per-backend tables (documented below)

``params`` maps bind names (``:name`` placeholders; compile with ``paramstyle="named"``) to Python values; a
placeholder becomes ``("lit", value, "?")``.  Column references ``t.a`` / ``a`` become ``("col", "a")``.

Operator tables (level: higher binds tighter; assoc "left" | "right" | "non")
------------------------------------------------------------------------------
sqlite      https://www.sqlite.org/lang_expr.html  (operators, highest to lowest):
            unary - + ~ | COLLATE | ``||`` | * / % | + - | & | << >> | ESCAPE | < <= > >= |
            = == <> != IS [NOT] [DISTINCT FROM] BETWEEN IN LIKE (one level, left) | NOT | AND | OR
postgresql  gram.y precedence declarations / docs table 4.2:
            :: | unary - | COLLATE | ^ | * / % | + - | any other operator (``||``) | BETWEEN IN LIKE ILIKE (non) |
            < > = <= >= <> (non) | IS ISNULL NOTNULL (non) | NOT | AND | OR
mysql       sql_yacc.yy strata (expr / bool_pri / predicate / bit_expr / simple_expr), which refine the docs table:
            unary - ~ | ^ | * / DIV % MOD | + - | << >> | & | ``|`` | IN BETWEEN LIKE (predicate; LIKE pattern is a
            simple_expr, BETWEEN's upper bound is a predicate) | = <=> <> != < <= > >= IS (bool_pri, left) |
            NOT | AND | XOR | OR
mssql       T-SQL "Operator Precedence": ~ | * / % | + - (unary and binary, + also concatenates) & ^ ``|`` |
            comparison / LIKE / IN / BETWEEN / IS NULL predicates (not nestable: non) | NOT | AND | OR
oracle      SQL Language Reference "Operator Precedence" + "Condition Precedence":
            unary + - | * / | + - ``||`` | = != < > <= >= , IS NULL LIKE BETWEEN IN (non) | NOT | AND | OR

Dialect-specific function forms are mapped onto sql3vl nodes: ``concat(a,b,..)``, ``lower(x)``, ``FLOOR(x)``,
``mod(a,b)``, ``DECODE(a,b,0,1)`` (0 when a,b are not distinct), ``EXISTS (SELECT a INTERSECT SELECT b)``,
``CAST(x AS type)``, ``(SELECT x AS name)`` (correlated scalar subquery without FROM), ``x::type`` (ignored).
``/`` is SQL division ("sqldiv": integer when both operands are integers); ``+`` on mssql is "plus"
(addition or concatenation by operand type).  A not yet expanded "expanding" bind (``__[POSTCOMPILE_name]`` inside IN)
stands for the list ``params[name]``.  MySQL string literals use backslash escapes (``'\\\\'`` is one backslash).

Non-associativity ("non"): ``a = b = c`` / ``a < b = c`` / ``a LIKE b LIKE c`` / ``a IS DISTINCT FROM b IS NULL`` are
parse errors on such a level (yacc %nonassoc); a completed postfix form (``a IS NULL IS NULL``, ``a IN (..) IN (..)``) is not.
The tables deliberately accept a little less than the real grammars where typed expression trees cannot reach
(e.g. a comparison as BETWEEN's lower bound on PostgreSQL needs parentheses here).
"""
from __future__ import annotations

import re


class ParseError(Exception):
    pass


_TOKEN = re.compile(
    r"""\s*(?:
      (?P<num>\d+\.\d*|\.\d+|\d+)
    | (?P<str>'(?:[^']|'')*')
    | (?P<param>:[A-Za-z_][A-Za-z_0-9]*)
    | (?P<postcompile>__\[POSTCOMPILE_[A-Za-z_0-9]+\])
    | (?P<ident>[A-Za-z_][A-Za-z_0-9]*(?:\.[A-Za-z_][A-Za-z_0-9]*)*)
    | (?P<qident>"[^"]+"|`[^`]+`|\[[^\]]+\])
    | (?P<op>\|\||<=>|<>|!=|<=|>=|::|<<|>>|==|[-+*/%=<>(),&|^~])
    )""",
    re.X,
)

KEYWORDS = {
    "AND", "OR", "NOT", "IS", "NULL", "DISTINCT", "FROM", "BETWEEN", "LIKE", "ILIKE", "ESCAPE", "IN", "CASE", "WHEN",
    "THEN", "ELSE", "END", "CAST", "AS", "SELECT", "EXISTS", "INTERSECT", "TRUE", "FALSE", "DIV", "MOD", "XOR", "COLLATE",
}  # fmt: skip


def tokenize(sql, backslash_escapes=False):
    """backslash_escapes: MySQL string literals ('\\\\' is one backslash)"""
    out = []
    pos = 0
    n = len(sql)
    while pos < n:
        m = _TOKEN.match(sql, pos)
        if not m or m.end() == pos:
            if sql[pos:].strip() == "":
                break
            raise ParseError("cannot tokenize at %r" % sql[pos : pos + 20])
        pos = m.end()
        kind = m.lastgroup
        text = m.group(kind)
        if kind == "ident" and text.upper() in KEYWORDS:
            out.append(("kw", text.upper()))
        elif kind == "qident":
            out.append(("ident", text[1:-1]))
        elif kind == "str" and backslash_escapes:
            out.append((kind, text.replace("\\\\", "\\")))
        else:
            out.append((kind, text))
    out.append(("eof", ""))
    return out


class Grammar:
    """levels: dict name -> (level, assoc).  names: OR AND XOR NOT IS CMP(= <> ...) REL(< <= > >=) PRED (BETWEEN IN LIKE)
    BITOR BITAND SHIFT ADD MUL CONCAT POW UMINUS.  Several names may share a level."""

    def __init__(self, name, levels, between_lo, between_hi, like_rhs, pred_operand, uminus_operand=None, plus_kind="add", concat_level="CONCAT"):
        self.name = name
        self.levels = levels
        self.between_lo = between_lo  # min level for BETWEEN's lower bound
        self.between_hi = between_hi  # min level for BETWEEN's upper bound
        self.like_rhs = like_rhs  # min level for the LIKE pattern
        self.pred_operand = pred_operand  # min level for the right operand of IS [NOT] DISTINCT FROM / IS x
        self.uminus_operand = uminus_operand  # min level for the operand of unary minus (default: its own level)
        self.plus_kind = plus_kind

    def lv(self, name):
        return self.levels[name][0]

    def assoc(self, name):
        return self.levels[name][1]


def _g(name, order, **kw):
    """order: list of (names..., assoc) lowest first"""
    levels = {}
    for i, entry in enumerate(order, start=1):
        *names, assoc = entry
        for nm in names:
            levels[nm] = (i, assoc)
    return levels


_SQLITE_L = _g(
    "sqlite",
    [
        ("OR", "left"),
        ("AND", "left"),
        ("NOT", "right"),
        ("CMP", "IS", "PRED", "left"),
        ("REL", "left"),
        ("BITOR", "BITAND", "SHIFT", "left"),
        ("ADD", "left"),
        ("MUL", "left"),
        ("CONCAT", "left"),
        ("UMINUS", "right"),
    ],
)
_PG_L = _g(
    "postgresql",
    [
        ("OR", "left"),
        ("AND", "left"),
        ("NOT", "right"),
        ("IS", "non"),
        ("CMP", "REL", "non"),
        ("PRED", "non"),
        ("CONCAT", "BITOR", "BITAND", "SHIFT", "left"),
        ("ADD", "left"),
        ("MUL", "left"),
        ("POW", "left"),
        ("UMINUS", "right"),
    ],
)
_MYSQL_L = _g(
    "mysql",
    [
        ("OR", "left"),
        ("XOR", "left"),
        ("AND", "left"),
        ("NOT", "right"),
        ("CMP", "REL", "IS", "left"),
        ("PRED", "non"),
        ("BITOR", "left"),
        ("BITAND", "left"),
        ("SHIFT", "left"),
        ("ADD", "left"),
        ("MUL", "left"),
        ("POW", "left"),
        ("UMINUS", "right"),
        ("CONCAT", "left"),  # || is OR by default in MySQL; SQLAlchemy renders concat(); kept out of reach
    ],
)
_MSSQL_L = _g(
    "mssql",
    [
        ("OR", "left"),
        ("AND", "left"),
        ("NOT", "right"),
        ("CMP", "REL", "IS", "PRED", "non"),
        ("ADD", "BITOR", "BITAND", "UMINUS", "left"),
        ("MUL", "left"),
        ("CONCAT", "left"),  # no || in T-SQL; + concatenates
    ],
)
_ORACLE_L = _g(
    "oracle",
    [
        ("OR", "left"),
        ("AND", "left"),
        ("NOT", "right"),
        ("CMP", "REL", "IS", "PRED", "non"),
        ("ADD", "CONCAT", "left"),
        ("MUL", "left"),
        ("UMINUS", "right"),
    ],
)

GRAMMARS = {
    "sqlite": Grammar(
        "sqlite", _SQLITE_L, between_lo=_SQLITE_L["NOT"][0], between_hi=_SQLITE_L["CMP"][0] + 1, like_rhs=_SQLITE_L["CMP"][0] + 1, pred_operand=_SQLITE_L["CMP"][0] + 1
    ),
    "postgresql": Grammar(
        "postgresql", _PG_L, between_lo=_PG_L["PRED"][0] + 1, between_hi=_PG_L["PRED"][0] + 1, like_rhs=_PG_L["PRED"][0] + 1, pred_operand=_PG_L["IS"][0] + 1
    ),
    "mysql": Grammar(
        "mysql", _MYSQL_L, between_lo=_MYSQL_L["PRED"][0] + 1, between_hi=_MYSQL_L["PRED"][0], like_rhs=_MYSQL_L["UMINUS"][0], pred_operand=_MYSQL_L["PRED"][0]
    ),
    "mssql": Grammar(
        "mssql",
        _MSSQL_L,
        between_lo=_MSSQL_L["ADD"][0],
        between_hi=_MSSQL_L["ADD"][0],
        like_rhs=_MSSQL_L["ADD"][0],
        pred_operand=_MSSQL_L["ADD"][0],
        uminus_operand=_MSSQL_L["MUL"][0],
        plus_kind="plus",
    ),
    "oracle": Grammar(
        "oracle", _ORACLE_L, between_lo=_ORACLE_L["ADD"][0], between_hi=_ORACLE_L["ADD"][0], like_rhs=_ORACLE_L["ADD"][0], pred_operand=_ORACLE_L["ADD"][0]
    ),
}

_BIN = {
    "||": ("CONCAT", "concat"),
    "+": ("ADD", "add"),
    "-": ("ADD", "sub"),
    "*": ("MUL", "mul"),
    "/": ("MUL", "sqldiv"),
    "%": ("MUL", "mod"),
    "=": ("CMP", "eq"),
    "==": ("CMP", "eq"),
    "!=": ("CMP", "ne"),
    "<>": ("CMP", "ne"),
    "<=>": ("CMP", "indf"),
    "<": ("REL", "lt"),
    "<=": ("REL", "le"),
    ">": ("REL", "gt"),
    ">=": ("REL", "ge"),
}
_NEG = {"like": "not_like", "ilike": "not_ilike", "between": "not_between", "in": "not_in"}


class _Parser:
    def __init__(self, toks, g, params):
        self.toks = toks
        self.i = 0
        self.g = g
        self.params = params or {}

    # token helpers
    def peek(self, k=0):
        return self.toks[min(self.i + k, len(self.toks) - 1)]

    def next(self):
        t = self.toks[self.i]
        self.i += 1
        return t

    def at_kw(self, *words):
        for k, w in enumerate(words):
            t = self.peek(k)
            if t != ("kw", w):
                return False
        return True

    def eat_kw(self, *words):
        if self.at_kw(*words):
            self.i += len(words)
            return True
        return False

    def expect_kw(self, w):
        if not self.eat_kw(w):
            raise ParseError("expected %s, got %r" % (w, self.peek()))

    def at_op(self, o):
        return self.peek() == ("op", o)

    def expect_op(self, o):
        if not self.at_op(o):
            raise ParseError("expected %r, got %r" % (o, self.peek()))
        self.i += 1

    # ---- expressions
    def expr(self, minlv=1):
        g = self.g
        lhs = self.prefix()
        open_non = None  # level of the last non-associative operator whose right end is an open operand
        while True:
            t = self.peek()
            op = None  # (levelname, handler)
            negated = False
            if t[0] == "op" and t[1] in _BIN:
                lname, kind = _BIN[t[1]]
                if lname not in g.levels:
                    raise ParseError("operator %s not in %s grammar" % (t[1], g.name))
                lv, assoc = g.levels[lname]
                if lv < minlv:
                    break
                self._nonassoc(open_non, lv, assoc, t[1])
                self.next()
                rhs = self.expr(lv + 1 if assoc != "right" else lv)
                if kind == "add" and g.plus_kind != "add":
                    kind = g.plus_kind
                lhs = (kind, lhs, rhs)
                open_non = lv if assoc == "non" else None
                continue
            if t == ("kw", "DIV") or t == ("kw", "MOD"):
                lv, assoc = g.levels["MUL"]
                if lv < minlv:
                    break
                self.next()
                rhs = self.expr(lv + 1)
                lhs = ("floordiv" if t[1] == "DIV" else "mod", lhs, rhs)
                open_non = None
                continue
            if t == ("kw", "AND") or t == ("kw", "OR") or t == ("kw", "XOR"):
                lv, assoc = g.levels[t[1]]
                if lv < minlv:
                    break
                self.next()
                rhs = self.expr(lv + 1)
                kind = t[1].lower()
                if lhs[0] == kind:
                    lhs = lhs + (rhs,)
                else:
                    lhs = (kind, lhs, rhs)
                open_non = None
                continue
            if t == ("kw", "IS"):
                lv, assoc = g.levels["IS"]
                if lv < minlv:
                    break
                self._nonassoc(open_non, lv, assoc, "IS")
                self.next()
                neg = self.eat_kw("NOT")
                if self.eat_kw("NULL"):
                    lhs = ("is_not_null" if neg else "is_null", lhs)
                    open_non = None
                    continue
                if self.eat_kw("DISTINCT"):
                    self.expect_kw("FROM")
                    rhs = self.expr(g.pred_operand)
                    lhs = ("indf" if neg else "idf", lhs, rhs)
                elif self.at_kw("TRUE") or self.at_kw("FALSE"):
                    v = self.next()[1] == "TRUE"
                    # x IS TRUE: never NULL
                    lhs = ("indf", lhs, ("lit", v, "B"))
                    if neg:
                        lhs = ("not", lhs)
                    open_non = None
                    continue
                else:
                    rhs = self.expr(g.pred_operand)
                    lhs = ("idf" if neg else "indf", lhs, rhs)
                open_non = lv if assoc == "non" else None
                continue
            # [NOT] BETWEEN / IN / LIKE / ILIKE
            k = 0
            if t == ("kw", "NOT") and self.peek(1)[0] == "kw" and self.peek(1)[1] in ("BETWEEN", "IN", "LIKE", "ILIKE"):
                negated = True
                k = 1
            t2 = self.peek(k)
            if t2[0] == "kw" and t2[1] in ("BETWEEN", "IN", "LIKE", "ILIKE"):
                lv, assoc = g.levels["PRED"]
                if lv < minlv:
                    break
                self._nonassoc(open_non, lv, assoc, t2[1])
                self.i += k + 1
                if t2[1] == "BETWEEN":
                    lo = self.expr(g.between_lo)
                    self.expect_kw("AND")
                    hi = self.expr(g.between_hi)
                    lhs = ("not_between" if negated else "between", lhs, lo, hi)
                    open_non = lv if assoc == "non" else None
                elif t2[1] == "IN":
                    self.expect_op("(")
                    items = []
                    if self.peek()[0] == "postcompile":
                        # not yet expanded "expanding" bind: stands for the list of its values
                        name = self.next()[1][len("__[POSTCOMPILE_") : -1]
                        if name not in self.params:
                            raise ParseError("unknown expanding parameter %s" % name)
                        items = [("lit", v, "?") for v in self.params[name]]
                    elif not self.at_op(")"):
                        items.append(self.expr(1))
                        while self.at_op(","):
                            self.next()
                            items.append(self.expr(1))
                    self.expect_op(")")
                    lhs = ("not_in" if negated else "in", lhs) + tuple(items)
                    open_non = None
                else:
                    pat = self.expr(g.like_rhs)
                    esc = None
                    if self.eat_kw("ESCAPE"):
                        e = self.expr(g.like_rhs)
                        if e[0] != "lit" or not isinstance(e[1], str):
                            raise ParseError("ESCAPE operand is not a string literal")
                        esc = e[1]
                        kind = t2[1].lower()
                        lhs = (_NEG[kind] if negated else kind, lhs, pat, esc)
                        open_non = None
                    else:
                        kind = t2[1].lower()
                        lhs = (_NEG[kind] if negated else kind, lhs, pat)
                        open_non = lv if assoc == "non" else None
                continue
            if t == ("op", "::"):
                self.next()
                self.typename()
                continue
            break
        return lhs

    def _nonassoc(self, open_non, lv, assoc, what):
        if assoc == "non" and open_non == lv:
            raise ParseError("%s: operator %s is non-associative at this level (needs parentheses)" % (self.g.name, what))

    def typename(self):
        t = self.next()
        if t[0] not in ("ident", "kw"):
            raise ParseError("type name expected, got %r" % (t,))
        words = [t[1].upper()]
        while self.peek()[0] == "ident":
            words.append(self.next()[1].upper())
        if self.at_op("("):
            depth = 0
            while True:
                t = self.next()
                if t == ("op", "("):
                    depth += 1
                elif t == ("op", ")"):
                    depth -= 1
                    if depth == 0:
                        break
                elif t[0] == "eof":
                    raise ParseError("unterminated type")
        w = " ".join(words)
        if "CHAR" in w or "TEXT" in w:
            return "S"
        if "INT" in w:
            return "N"
        if "NUMERIC" in w or "DECIMAL" in w or "FLOAT" in w or "REAL" in w or "DOUBLE" in w or "NUMBER" in w:
            return "F"
        if "BOOL" in w or w == "BIT":
            return "B"
        raise ParseError("unknown type %s" % w)

    def prefix(self):
        g = self.g
        t = self.peek()
        if t == ("kw", "NOT"):
            self.next()
            return ("not", self.expr(g.lv("NOT")))
        if t == ("op", "-") or t == ("op", "+"):
            self.next()
            operand = self.expr(g.uminus_operand or g.lv("UMINUS"))
            postfix = self._postfix(("neg", operand) if t[1] == "-" else operand)
            return postfix
        return self._postfix(self.primary())

    def _postfix(self, node):
        while self.at_op("::"):
            self.next()
            self.typename()
        return node

    def primary(self):
        t = self.next()
        kind, text = t
        if kind == "num":
            return ("lit", float(text) if "." in text else int(text), "N")
        if kind == "str":
            return ("lit", text[1:-1].replace("''", "'"), "S")
        if kind == "param":
            name = text[1:]
            if name not in self.params:
                raise ParseError("unknown bind parameter %s" % name)
            return ("lit", self.params[name], "?")
        if kind == "op" and text == "(":
            if self.at_kw("SELECT"):
                node = ("ssq", self.select_one())
            else:
                node = self.expr(1)
            self.expect_op(")")
            return node
        if kind == "kw":
            if text == "NULL":
                return ("lit", None, "?")
            if text in ("TRUE", "FALSE"):
                return ("lit", text == "TRUE", "B")
            if text == "CASE":
                whens = []
                while self.eat_kw("WHEN"):
                    c = self.expr(1)
                    self.expect_kw("THEN")
                    v = self.expr(1)
                    whens.append((c, v))
                if not whens:
                    raise ParseError("CASE without WHEN")
                else_ = ("lit", None, "?")
                if self.eat_kw("ELSE"):
                    else_ = self.expr(1)
                self.expect_kw("END")
                node = else_
                for c, v in reversed(whens):
                    node = ("case", c, v, node)
                return node
            if text == "CAST":
                self.expect_op("(")
                x = self.expr(1)
                self.expect_kw("AS")
                ty = self.typename()
                self.expect_op(")")
                return ("cast", x, ty)
            if text == "EXISTS":
                self.expect_op("(")
                a = self.select_one()
                self.expect_kw("INTERSECT")
                b = self.select_one()
                self.expect_op(")")
                return ("indf", a, b)
            if text == "MOD" and self.at_op("("):
                a, b = self.args(2)
                return ("mod", a, b)
            raise ParseError("unexpected keyword %s" % text)
        if kind == "ident":
            if self.at_op("("):
                fn = text.lower()
                if fn == "concat":
                    return ("concat",) + tuple(self.args(None))
                if fn == "lower":
                    return ("lower",) + tuple(self.args(1))
                if fn == "floor":
                    return ("floor",) + tuple(self.args(1))
                if fn == "mod":
                    return ("mod",) + tuple(self.args(2))
                if fn == "decode":
                    a, b, x, y = self.args(4)
                    return ("case", ("indf", a, b), x, y)
                raise ParseError("unknown function %s" % text)
            return ("col", text.rsplit(".", 1)[-1])
        raise ParseError("unexpected token %r" % (t,))

    def args(self, n):
        self.expect_op("(")
        out = []
        if not self.at_op(")"):
            out.append(self.expr(1))
            while self.at_op(","):
                self.next()
                out.append(self.expr(1))
        self.expect_op(")")
        if n is not None and len(out) != n:
            raise ParseError("expected %d arguments, got %d" % (n, len(out)))
        return out

    def select_one(self):
        """SELECT expr [AS name]  (no FROM: correlated scalar subquery / INTERSECT operand)"""
        self.expect_kw("SELECT")
        x = self.expr(1)
        if self.eat_kw("AS"):
            t = self.next()
            if t[0] != "ident":
                raise ParseError("label expected")
        if self.eat_kw("FROM"):
            # oracle: FROM DUAL
            t = self.next()
            if t[0] != "ident" or t[1].upper() != "DUAL":
                raise ParseError("unexpected FROM in scalar subquery")
        return x


def parse(sql, dialect, params=None):
    g = GRAMMARS[dialect]
    p = _Parser(tokenize(sql, backslash_escapes=(dialect == "mysql")), g, params)
    node = p.expr(1)
    if p.peek()[0] != "eof":
        raise ParseError("trailing input at %r" % (p.peek(),))
    return node
