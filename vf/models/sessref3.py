"""sessref3: plain-Python reference models for C36 / C37 / C45 / C46.

RelModel (C37)
    the two sides of one bidirectional relationship as ordinary Python values
    over harness *names* (``p1``, ``c2``): a list / set / dict of names for a
    collection side, a name or None for a scalar side.  A mutation is applied
    to the side it is performed on with the semantics of the plain Python type
    (``list.insert``, ``set.__ior__``, slice assignment ...), afterwards the
    *other* side is repaired with the smallest change that makes
    "B in A's collection  <=>  A is B's parent / in B's collection" true again.

HistModel (C36)
    committed value + current value of one attribute; history = net change.

The models know nothing about SQLAlchemy.
"""
from __future__ import annotations

import copy

UNLOADED = "<unloaded>"


# ------------------------------------------------------------------ plain container ops


class Arbitrary(Exception):
    """the operation removes an element of the container's choosing (set.pop,
    dict.popitem): the model takes the implementation's choice"""


def coll_apply(cont, m, conv=lambda n: n, choice=None):
    """apply method spec ``m`` (JSON-able list) to container ``cont`` in place
    with plain Python semantics; ``conv`` maps names to elements.  returns the
    Python return value.  used on name containers (model) *and* on the real
    instrumented collections (implementation) - same code, different conv."""
    name = m[0]
    L = lambda xs: [conv(x) for x in xs]  # noqa: E731
    if name == "append":
        return cont.append(conv(m[1]))
    if name == "remove":
        return cont.remove(conv(m[1]))
    if name == "insert":
        return cont.insert(m[1], conv(m[2]))
    if name == "pop":
        if len(m) > 1:
            return cont.pop(m[1])
        if isinstance(cont, set) and choice is not None:
            cont.remove(choice)
            return choice
        return cont.pop()
    if name == "popd":
        return cont.pop(m[1], None)
    if name == "popitem":
        if choice is not None:
            return (choice, cont.pop(choice))
        return cont.popitem()
    if name == "clear":
        return cont.clear()
    if name == "extend":
        return cont.extend(L(m[1]))
    if name == "setitem":
        cont[m[1]] = conv(m[2])
        return None
    if name == "delitem":
        del cont[m[1]]
        return None
    if name == "setslice":
        cont[slice(*m[1])] = L(m[2])
        return None
    if name == "delslice":
        del cont[slice(*m[1])]
        return None
    if name == "add":
        return cont.add(conv(m[1]))
    if name == "discard":
        return cont.discard(conv(m[1]))
    if name in ("update", "difference_update", "intersection_update", "symmetric_difference_update"):
        if isinstance(cont, dict):
            return cont.update({k: conv(v) for k, v in m[1].items()})
        return getattr(cont, name)(L(m[1]))
    if name == "setdefault":
        return cont.setdefault(m[1], conv(m[2]))
    raise AssertionError(m)


INPLACE = {"iadd": "__iadd__", "ior": "__ior__", "isub": "__isub__", "iand": "__iand__", "ixor": "__ixor__"}


def inplace_apply(cont, m, conv=lambda n: n):
    """``x op= arg``; returns the object to assign back"""
    arg = [conv(x) for x in m[1]]
    if m[0] != "iadd":
        arg = set(arg)
    return getattr(cont, INPLACE[m[0]])(arg)


def members(v):
    """list of names contained in one attribute value (with multiplicity)"""
    if v is None or v == UNLOADED:
        return []
    if isinstance(v, str):
        return [v]
    if isinstance(v, dict):
        return list(v.values())
    return list(v)


def has_dups(v):
    m = members(v)
    return len(m) != len(set(m))


def render(v):
    if isinstance(v, set):
        return "{" + ",".join(sorted(v)) + "}"
    if isinstance(v, dict):
        return "{" + ",".join("%s:%s" % kv for kv in sorted(v.items())) + "}"
    if isinstance(v, list):
        return "[" + ",".join(v) + "]"
    return str(v)


# ------------------------------------------------------------------ C37 relation model


class RelModel:
    """``val[side][owner]``; side "P" or "C".  ``shape[side]`` is "list",
    "set", "dict" or "scalar"."""

    def __init__(self, shape_p, shape_c, pnames, cnames):
        self.shape = {"P": shape_p, "C": shape_c}
        self.val = {
            "P": {n: self._empty(shape_p) for n in pnames},
            "C": {n: self._empty(shape_c) for n in cnames},
        }
        # scalar references re-pointed away from a non-None value by the last
        # apply(): (side, owner, previous value).  The previous value's holder
        # had to be told - impossible for an implementation that does not know
        # the previous value (unloaded, no active_history).
        self.displaced = []
        self.touched = set()  # (side, owner) whose value the last apply() changed

    @staticmethod
    def _empty(shape):
        return {"list": list, "set": set, "dict": dict, "scalar": lambda: None}[shape]()

    def copy(self):
        return copy.deepcopy(self)

    @staticmethod
    def other(side):
        return "C" if side == "P" else "P"

    # -- repairs on the far side
    def _drop(self, side, owner, member):
        """remove every occurrence of ``member`` from owner's attribute"""
        v = self.val[side][owner]
        sh = self.shape[side]
        if sh == "scalar":
            if v == member:
                self.val[side][owner] = None
        elif sh == "list":
            self.val[side][owner] = [x for x in v if x != member]
        elif sh == "set":
            v.discard(member)
        else:
            for k in [k for k, x in v.items() if x == member]:
                del v[k]

    def _link(self, side, owner, member):
        """make ``member`` present in owner's attribute on ``side``; a scalar
        that pointed elsewhere is re-pointed and the previous holder loses
        ``owner`` (an object has one parent)"""
        v = self.val[side][owner]
        sh = self.shape[side]
        if sh == "scalar":
            if v == member:
                return
            self.val[side][owner] = member
            if v is not None:
                self.displaced.append((side, owner, v))
                self._drop(self.other(side), v, owner)
        elif sh == "list":
            if member not in v:
                v.append(member)
        elif sh == "set":
            v.add(member)
        else:
            if member not in v.values():
                v[member] = member  # attribute_keyed_dict("name"): key is the name

    def primary(self, op, choice=None):
        """apply the op to the side it is performed on; returns (new value,
        python return value).  raises what plain Python raises."""
        kind, side, owner = op[0], op[1], op[2]
        cur = copy.deepcopy(self.val[side][owner])
        ret = None
        if kind == "sset":
            cur = op[3]
        elif kind in ("sdel", "adel"):
            cur = self._empty(self.shape[side])
        elif kind == "assign":
            v = op[3]
            cur = set(v) if self.shape[side] == "set" else copy.deepcopy(v)
        elif kind == "assign_from":
            cur = copy.deepcopy(self.val[side][op[3]])
        elif kind == "coll":
            m = op[3]
            if m[0] in INPLACE:
                cur = inplace_apply(cur, m)
            else:
                ret = coll_apply(cur, m, choice=choice)
        elif kind == "load":
            pass
        else:
            raise AssertionError(op)
        return cur, ret

    def apply(self, op, choice=None):
        """returns python return value; raises the plain-Python exception with
        the state untouched when the op is an error on the plain type"""
        side, owner = op[1], op[2]
        old = self.val[side][owner]
        new, ret = self.primary(op, choice)
        before = copy.deepcopy(self.val)
        self.displaced = []
        if self.shape[side] == "scalar" and old is not None and old != new:
            self.displaced.append((side, owner, old))
        self.val[side][owner] = new
        o = self.other(side)
        old_m, new_m = members(old), members(new)
        for t in dict.fromkeys(old_m):
            if t not in new_m:
                self._drop(o, t, owner)
        for t in dict.fromkeys(new_m):
            if t not in old_m:
                self._link(o, t, owner)
        # a member newly linked to a scalar far side may have been stolen from
        # another owner on *this* side: _link handled it.
        self.touched = {(s, n) for s in ("P", "C") for n in self.val[s] if self.val[s][n] != before[s][n]}
        return ret

    # -- the property, on any view {side: {owner: value}}
    @staticmethod
    def disagreements(view, skip=()):
        """pairs on which the two sides disagree, evaluated on loaded
        attributes only.  returns list of text facts"""
        out = []
        for p, pv in view["P"].items():
            if pv == UNLOADED:
                continue
            for c, cv in view["C"].items():
                if cv == UNLOADED or (p, c) in skip:
                    continue
                a = c in members(pv)
                b = p in members(cv)
                if a and not b:
                    out.append("%s in %s's side %s but %s's side is %s" % (c, p, render(pv), c, render(cv)))
                elif b and not a:
                    out.append("%s in %s's side %s but %s's side is %s" % (p, c, render(cv), p, render(pv)))
        return out

    def view(self):
        return copy.deepcopy(self.val)

    def pairs(self):
        return sorted({(p, c) for p, pv in self.val["P"].items() for c in members(pv)})

    def key(self):
        return tuple(
            (side, n, render(v)) for side in ("P", "C") for n, v in sorted(self.val[side].items())
        )


# ------------------------------------------------------------------ C36 history model

UNKNOWN = "<unknown>"  # committed value not known at the first mutation
ABSENT = "<absent>"  # no committed value at all (new object / never set)


class AttrHist:
    """one attribute between two flushes: committed value (as far as the
    mapper can know it) and current value -> the net change.

    kind: "col" (compared with ==, None is a value), "ref" (compared by
    identity, None is "no object"), "coll" (membership by identity)."""

    def __init__(self, kind, row=None, loaded=False, cur=None, absent=False):
        self.kind = kind
        self.row = row  # value in the database as of this transaction
        self.loaded = loaded
        self.cur = cur
        self.absent = absent  # no value in memory although not expired (del / never set)
        self.dirty = False
        self.orig = None

    def copy(self):
        return copy.deepcopy(self)

    def first_mutation(self, orig):
        if not self.dirty:
            self.dirty = True
            self.orig = orig

    def reset(self):
        self.dirty = False
        self.orig = None

    def effective(self):
        """the value a flush has to persist"""
        if self.kind == "coll":
            return members(self.cur) if self.loaded else None
        return None if self.absent else self.cur

    def changed(self):
        """does the net change differ from nothing (as far as knowable)"""
        if not self.dirty:
            return False
        if self.orig in (UNKNOWN, ABSENT):
            return True
        if self.kind == "coll":
            return sorted(members(self.cur)) != sorted(self.orig)
        return self.effective() != self.orig

    def check(self, h):
        """h = (added, unchanged, deleted) as tuples of names/values.  returns
        a problem text or None.  This *is* the property: unchanged + added =
        current; unchanged + deleted = committed (when it was known); a value
        set back to the committed one is no change; unknown committed value
        -> deleted empty."""
        added, unchanged, deleted = (tuple(x) for x in h)
        if self.kind == "coll":
            return self._check_coll(added, unchanged, deleted)
        if not self.dirty:
            exp = ((), (self.cur,), ()) if self.loaded and not self.absent else ((), (), ())
            got = (added, unchanged, deleted)
            none_eq = {((), (None,), ()), ((), (), ())}
            if got != exp and not (exp in none_eq and got in none_eq):
                # (None and "no value" are the same committed state)
                return "unmodified attribute reports %r, expected %r" % ((added, unchanged, deleted), exp)
            return None
        known = self.orig not in (UNKNOWN, ABSENT)
        if known and not self.absent and self.cur == self.orig:
            if (added, unchanged, deleted) != ((), (self.cur,), ()):
                return "set back to the committed value %r but history is %r" % (self.orig, (added, unchanged, deleted))
            return None
        if not known and not self.absent and self.cur is None and (added, unchanged, deleted) == ((), (None,), ()):
            return None  # no committed value -> None: not a change either
        if unchanged != ():
            return "changed attribute reports unchanged=%r" % (unchanged,)
        if self.absent:
            if added not in ((), (None,)):
                return "deleted attribute reports added=%r" % (added,)
        elif added != (self.cur,):
            return "added=%r, current value is %r" % (added, self.cur)
        if known:
            ok = deleted == (self.orig,) or (self.orig is None and deleted == ())
            if self.kind == "ref" and self.orig is None:
                ok = deleted == ()
            if not ok:
                return "deleted=%r, committed value was %r" % (deleted, self.orig)
        elif deleted != ():
            return "deleted=%r although the committed value was not known" % (deleted,)
        if set(added) & set(deleted) - {None}:
            return "added and deleted overlap: %r" % ((added, deleted),)
        return None

    def _check_coll(self, added, unchanged, deleted):
        if not self.loaded:
            if (added, unchanged, deleted) != ((), (), ()):
                return "unloaded collection reports %r" % ((added, unchanged, deleted),)
            return None
        cur = members(self.cur)
        if sorted(added + unchanged) != sorted(cur):
            return "added+unchanged = %r, current members %r" % (sorted(added + unchanged), sorted(cur))
        if not self.dirty:
            if added or deleted:
                return "unmodified collection reports added=%r deleted=%r" % (added, deleted)
            return None
        if self.orig == ABSENT:
            if unchanged or deleted:
                return "new collection reports unchanged=%r deleted=%r" % (unchanged, deleted)
            return None
        orig = list(self.orig)
        if sorted(set(unchanged + deleted)) != sorted(set(orig)):
            return "unchanged+deleted = %r, committed members %r" % (sorted(unchanged + deleted), sorted(orig))
        if set(added) & set(deleted):
            return "added and deleted overlap: %r" % ((added, deleted),)
        if set(added) & set(orig):
            return "added=%r contains committed members %r" % (added, orig)
        return None
