"""sessref2 -- reference model of "what rows does the object graph imply".

Plain Python, no SQLAlchemy import.  A ``Spec`` describes a mapping as data
(classes -> tables/columns, *links* = one foreign key seen as many-to-one
and/or one-to-many, *m2ms* = association tables).  ``Model`` keeps

* per named object: class, lifecycle letter (T transient, P pending,
  S persistent, X deleted-and-flushed, D detached), the ``marked`` flag of
  ``Session.delete``, column values;
* the *logical* relationship state: ``par[(link, child)] = parent`` and
  ``mm[(m2m, left)] = [right, ...]`` (bidirectional relationships are one
  fact, not two);
* the database as rows per table (the transaction's view).

The rules are the documented ones (doc/build/orm/cascades.rst,
session_basics.rst, session_state_management.rst, unitofwork docs):

* add(x): x becomes pending, and so does everything reachable over
  ``save-update`` edges (plain reachability through objects not yet in the
  session).
* delete(x): x and everything reachable over ``delete`` edges is deleted at
  the next flush; children of a deleted parent on a link *without* delete
  cascade get their foreign key set to NULL; association rows of a deleted
  object disappear.
* an object removed from a ``delete-orphan`` relationship and not
  re-associated is deleted at flush (pending: it is expunged).
* expunge / refresh-expire / merge reach the closure over the respective
  edges.
* flush: INSERT for pending, UPDATE of changed columns for persistent, DELETE
  for deleted; foreign key columns := the key of the related object;
  association rows := the collections.

``expect_flush`` returns the *set of acceptable outcomes* (rule 3 of the
design: where the documentation leaves the outcome open -- operations that the
library reports with a "not in session ... will not proceed" warning, detached
members of collections -- more than one outcome is accepted) and whether an
error is acceptable (the final state violates PRIMARY KEY / FOREIGN KEY /
NOT NULL).
"""
from __future__ import annotations

import copy


class Tab:
    def __init__(self, name, pk, cols):
        self.name, self.pk, self.cols = name, pk, list(cols)


class Cls:
    def __init__(self, name, tabs, pk, cols, fixed=None, base=None, pk_mutable=False):
        self.name, self.tabs, self.pk, self.cols = name, tabs, pk, dict(cols)
        self.fixed = dict(fixed or {})
        self.base = base
        self.pk_mutable = pk_mutable


class Link:
    """one foreign key: holder.fk -> target.pk; visible as holder.<m2o> and/or target.<o2m>"""

    def __init__(self, name, holder, fk, table, target, m2o, o2m, uselist, c_o2m, c_m2o, nullable=True,
                 post_update=False, passive_updates=True, deferred=False):
        self.name, self.holder, self.fk, self.table, self.target = name, holder, fk, table, target
        self.m2o, self.o2m, self.uselist = m2o, o2m, uselist
        self.c_o2m, self.c_m2o = frozenset(c_o2m), frozenset(c_m2o)
        self.nullable, self.post_update, self.passive_updates, self.deferred = nullable, post_update, passive_updates, deferred


class M2M:
    def __init__(self, name, left, lkey, right, rkey, table, lcol, rcol, c_l, c_r):
        self.name, self.left, self.lkey, self.right, self.rkey = name, left, lkey, right, rkey
        self.table, self.lcol, self.rcol = table, lcol, rcol
        self.c_l, self.c_r = frozenset(c_l), frozenset(c_r)


class Spec:
    def __init__(self, classes, links, m2ms=()):
        self.cls = {c.name: c for c in classes}
        self.links = list(links)
        self.m2ms = list(m2ms)
        self.link = {l.name: l for l in self.links}
        self.m2m = {m.name: m for m in self.m2ms}

    def root(self, cname):
        while self.cls[cname].base:
            cname = self.cls[cname].base
        return cname

    def isa(self, cname, base):
        while cname is not None:
            if cname == base:
                return True
            cname = self.cls[cname].base
        return False

    def rels_of(self, cname):
        out = []
        for l in self.links:
            if l.m2o and self.isa(cname, l.holder):
                out.append((l.m2o, False))
            if l.o2m and self.isa(cname, l.target):
                out.append((l.o2m, l.uselist))
        for m in self.m2ms:
            if self.isa(cname, m.left):
                out.append((m.lkey, True))
            if m.rkey and self.isa(cname, m.right):
                out.append((m.rkey, True))
        return out

    def rel_uselist(self, cname, key):
        for k, u in self.rels_of(cname):
            if k == key:
                return u
        raise KeyError(key)

    def cls_of_obj(self, w, name):
        for n, cname, kw in w.universe:
            if n == name:
                return cname
        raise KeyError(name)

    def data_col(self, cname):
        c = self.cls[cname]
        return "name" if ("name" in c.cols and c.pk != "name") else "info"

    def find_rel(self, cname, key):
        """-> ('m2o', link) | ('o2m', link) | ('l', m2m) | ('r', m2m)"""
        for l in self.links:
            if l.m2o == key and self.isa(cname, l.holder):
                return "m2o", l
            if l.o2m == key and self.isa(cname, l.target):
                return "o2m", l
        for m in self.m2ms:
            if m.lkey == key and self.isa(cname, m.left):
                return "l", m
            if m.rkey == key and self.isa(cname, m.right):
                return "r", m
        raise KeyError((cname, key))


class Obj:
    __slots__ = ("cls", "life", "marked", "vals", "oos", "dbpk")

    def __init__(self, cls, vals, life="T"):
        self.cls, self.vals, self.life = cls, dict(vals), life
        self.marked = False
        self.oos = False  # "orphaned outside of session" memo (pending-orphan rule)
        self.dbpk = None  # primary key of this object's row in the database (differs from vals[pk] during a key change)

    def copy(self):
        o = Obj(self.cls, self.vals, self.life)
        o.marked, o.oos, o.dbpk = self.marked, self.oos, self.dbpk
        return o


class ModelError(Exception):
    """the model predicts that the operation raises"""


class Model:
    def __init__(self, spec, universe):
        self.spec = spec
        self.objs = {}
        self.universe = {name: (cname, dict(kw)) for name, cname, kw in universe}
        for name, cname, kw in universe:
            c = spec.cls[cname]
            vals = {a: kw.get(a) for a in c.cols}
            self.objs[name] = Obj(cname, vals)
        self.par = {}  # (link, child) -> parent name | None ; absent = None
        self.deparented = set()  # (link, child): removed from a parent since it was loaded/flushed and not re-associated
        self.mm = {}  # (m2m, left) -> [right names]
        self.rows = {}  # table -> {pk: {col: v}}
        self.assoc = {}  # table -> set((l, r))
        for c in spec.cls.values():
            for t in c.tabs:
                self.rows.setdefault(t.name, {})
        for m in spec.m2ms:
            self.assoc[m.table] = set()
        self.committed = (copy.deepcopy(self.rows), copy.deepcopy(self.assoc))
        self.dirty = set()  # objects with attribute events since the last flush
        self.reltouched = set()  # (link, child) whose parent was assigned (even to the same object) since the last flush
        self.mmtouched = set()  # (m2m, left, right) pairs appended or removed since the last flush
        self.stale = set()  # objects whose in-memory collections still list an object deleted by an earlier flush (until expiry)
        self.taint = set()  # catalogued defects after which memory and model may differ until the next commit ('f5')
        self.soft = set()  # (link, child): de-associated through the many-to-one side; in lenient mode the orphan rule may or may not fire
        self.strict_orphans = False
        self.quirks = frozenset()
        self.fuzzy = set()  # objects whose lifecycle state is open (detached members reached by a delete cascade)
        self.dead = None  # reason why the history left the modelled domain
        self.open = False  # outcome of the *next* flush is partly open (see expect_flush)
        self.nmerge = 0
        self.last_merge = None

    def copy(self):
        m = Model.__new__(Model)
        m.spec = self.spec
        m.universe = self.universe
        m.objs = {k: v.copy() for k, v in self.objs.items()}
        m.par = dict(self.par)
        m.deparented = set(self.deparented)
        m.dirty = set(self.dirty)
        m.reltouched = set(self.reltouched)
        m.mmtouched = set(self.mmtouched)
        m.stale = set(self.stale)
        m.taint = set(self.taint)
        m.fuzzy = set(self.fuzzy)
        m.soft = set(self.soft)
        m.strict_orphans = self.strict_orphans
        m.quirks = self.quirks
        m.mm = {k: list(v) for k, v in self.mm.items()}
        m.rows = {t: {k: dict(r) for k, r in rs.items()} for t, rs in self.rows.items()}
        m.assoc = {t: set(s) for t, s in self.assoc.items()}
        m.committed = self.committed
        m.dead = self.dead
        m.open = self.open
        m.nmerge = self.nmerge
        m.last_merge = self.last_merge
        return m

    # ------------------------------------------------------------ helpers
    def in_sess(self, n):
        return self.objs[n].life in "PS"

    def pk(self, n):
        o = self.objs[n]
        return o.vals[self.spec.cls[o.cls].pk]

    def children(self, link, p, lives="TPSD"):
        return sorted(c for (l, c), v in self.par.items() if l == link.name and v == p and self.objs[c].life in lives)

    def parent(self, link, c):
        return self.par.get((link.name, c))

    def links_as_holder(self, cname):
        return [l for l in self.spec.links if self.spec.isa(cname, l.holder)]

    def links_as_target(self, cname):
        return [l for l in self.spec.links if self.spec.isa(cname, l.target)]

    def rights(self, m, l):
        return list(self.mm.get((m.name, l), ()))

    def lefts(self, m, r):
        return sorted(l for (mn, l), v in self.mm.items() if mn == m.name and r in v)

    def neighbours(self, n, cascade, lives="TPSDX"):
        """objects related to n over relationships whose cascade set contains `cascade` (either direction's own
        cascade setting, as configured on that side)"""
        o = self.objs[n]
        out = []
        for l in self.links_as_target(o.cls):
            if l.o2m and cascade in l.c_o2m:
                out += self.children(l, n, lives)
        for l in self.links_as_holder(o.cls):
            if l.m2o and cascade in l.c_m2o:
                p = self.parent(l, n)
                if p is not None and self.objs[p].life in lives:
                    out.append(p)
        for m in self.spec.m2ms:
            if self.spec.isa(o.cls, m.left) and cascade in m.c_l:
                out += [r for r in self.rights(m, n) if self.objs[r].life in lives]
            if m.rkey and self.spec.isa(o.cls, m.right) and cascade in m.c_r:
                out += [l for l in self.lefts(m, n) if self.objs[l].life in lives]
        return out

    def closure(self, start, cascade, through=None, lives="TPSDX"):
        """plain reachability. `through(n)`: may traversal continue from n (default: always)"""
        seen, todo = [], [start]
        while todo:
            n = todo.pop(0)
            if n in seen:
                continue
            seen.append(n)
            if n != start and through is not None and not through(n):
                continue
            todo += [x for x in self.neighbours(n, cascade, lives) if x not in seen]
        return seen

    # ------------------------------------------------------------ enabledness

    def usable(self, n):
        """ops only address objects that are transient, pending or persistent"""
        return not n.startswith("~") and self.objs[n].life in "TPS"

    # ------------------------------------------------------------ ops
    def add(self, x):
        o = self.objs[x]
        if o.life == "X":
            raise ModelError("deleted")
        if o.life == "D":
            raise ModelError("detached re-add is outside the modelled domain")
        cl = self.closure(x, "save-update", through=lambda n: not self.in_sess(n), lives="TPSDX")
        if any(self.objs[k].life == "X" for k in cl):
            raise ModelError("the save-update cascade reaches a deleted object")
        for n in cl:
            self._attach(n)

    def _attach(self, n):
        o = self.objs[n]
        if o.life == "T":
            o.life = "P"
            o.oos = False
        elif o.life == "D" and o.dbpk is not None:
            # cascaded re-attachment of a detached object: persistent again with whatever it holds in memory
            o.life = "S"
            o.oos = False

    def _drop_links(self, n):
        for k in [k for k in self.par if k[1] == n]:
            del self.par[k]
        for k, v in list(self.par.items()):
            if v == n:
                self.par[k] = None
        for k in [k for k in self.mm if k[1] == n]:
            del self.mm[k]
        for k, v in self.mm.items():
            if n in v:
                v.remove(n)

    def delete(self, x):
        o = self.objs[x]
        if o.life != "S":
            raise ModelError("not persisted")
        o.marked = True
        # delete cascade is also evaluated at call time (objects related *now*); the flush re-evaluates it
        for n in self.closure(x, "delete", lives="SD"):
            on = self.objs[n]
            if on.life == "D":
                self.fuzzy.add(n)
                continue  # open: the stale member itself or a freshly loaded copy of its row is deleted
            if on.life == "S":
                on.marked = True

    def expunge(self, x):
        o = self.objs[x]
        if o.life not in "PS":
            raise ModelError("not in session")
        for n in self.closure(x, "expunge", lives="TPSD"):
            self._detach(n)

    def expunge_exact(self, names):
        for n in names:
            self._detach(n)

    def expunge_bounds(self, x):
        """without forcing loads the cascade follows what happens to be in memory: at least x, at most everything
        reachable over expunge edges of the object graph or of the rows"""
        seen, todo = [], [x]
        while todo:
            n = todo.pop(0)
            if n in seen:
                continue
            seen.append(n)
            todo += self.neighbours(n, "expunge", "TPSD") + self._row_neighbours(n, "expunge")
        return {x}, set(seen)

    def _row_neighbours(self, n, cascade):
        o = self.objs[n]
        spec = self.spec
        out = []
        if o.life != "S":
            return out
        for l in self.links_as_target(o.cls):
            if l.o2m and cascade in l.c_o2m:
                for c, oc in self.objs.items():
                    if oc.life == "S" and spec.isa(oc.cls, l.holder) and self.rows[l.table].get(oc.dbpk, {}).get(l.fk) == o.dbpk:
                        out.append(c)
        for l in self.links_as_holder(o.cls):
            if l.m2o and cascade in l.c_m2o:
                fk = self.rows[l.table].get(o.dbpk, {}).get(l.fk)
                h = self._holder_of(l.target, fk) if fk is not None else None
                if h:
                    out.append(h)
        for mm_ in spec.m2ms:
            if spec.isa(o.cls, mm_.left) and cascade in mm_.c_l:
                out += [h for h in (self._holder_of(mm_.right, b) for a, b in self.assoc[mm_.table] if a == o.dbpk) if h]
            if mm_.rkey and spec.isa(o.cls, mm_.right) and cascade in mm_.c_r:
                out += [h for h in (self._holder_of(mm_.left, a) for a, b in self.assoc[mm_.table] if b == o.dbpk) if h]
        return out

    def _detach(self, n):
        o = self.objs[n]
        if o.life == "P":
            o.life = "T"
        elif o.life == "S":
            o.life = "D"
            o.marked = False

    def _holder_of(self, cname, pk):
        root = self.spec.root(cname)
        for n, o in self.objs.items():
            if o.life in "S" and self.spec.root(o.cls) == root and o.dbpk == pk:
                return n
        return None

    def set(self, x, attr, v):
        self.objs[x].vals[attr] = v
        self.dirty.add(x)

    def _deparent(self, link, c, oldp, via="o2m"):
        """c has just lost its parent on `link` (and has no new one)"""
        if "delete-orphan" not in link.c_o2m:
            return
        if via == "m2o" and self.objs[c].life == "S":
            self.soft.add((link.name, c))
        oc = self.objs[c]
        if oc.life == "P" and oldp is not None and self.in_sess(oldp):
            # pending orphan: expunged right away (with expunge cascade)
            for n in self.closure(c, "expunge", lives="TPSD"):
                self._detach(n)
        else:
            oc.oos = True
            self.deparented.add((link.name, c))

    def _set_parent(self, link, c, p, via):
        """via: 'm2o' (c.parent = p) or 'o2m' (p.children.append(c) / remove)"""
        old = self.parent(link, c)
        if p is not None:
            self.reltouched.add((link.name, c))
        if old == p:
            return
        if p is not None and not link.uselist:
            # one-to-one: the parent's previous partner is displaced
            for c2 in self.children(link, p):
                if c2 != c:
                    if via == "m2o" or getattr(self, "_merging", False):
                        self.taint.add("f5")  # the library leaves the displaced child's own attribute untouched
                    self._set_parent(link, c2, None, via)
        if p is not None:
            # save-update cascade on the side the application touched (2.x: no backref cascade); it runs before the
            # other side of the relationship is updated, i.e. over the graph in which c still has its old parent
            if via == "o2m" and "save-update" in link.c_o2m and self.in_sess(p) and not self.in_sess(c):
                self.add_cascaded(c)
            if via == "m2o" and "save-update" in link.c_m2o and self.in_sess(c) and not self.in_sess(p):
                self.add_cascaded(p)
        if ("f2" in self.quirks and old is not None and p is not None and "delete-orphan" in link.c_o2m
                and self.objs[c].life == "P" and self.in_sess(old)):
            # known defect (reported under C39): while the child moves, it is for a moment without parent and the
            # pending-orphan rule expunges it
            for n in self.closure(c, "expunge", lives="TPSD"):
                self._detach(n)
        self.par[(link.name, c)] = p
        self.dirty.update(x for x in (c, p, old) if x is not None)
        if p is not None:
            self.deparented.discard((link.name, c))
            self.soft.discard((link.name, c))
        if old is not None and p is None:
            self._deparent(link, c, old, via)
        elif old is not None and p is not None and "delete-orphan" in link.c_o2m:
            pass  # re-associated: not an orphan

    def add_cascaded(self, n):
        if self.objs[n].life in "TD":
            cl = self.closure(n, "save-update", through=lambda k: not self.in_sess(k), lives="TPSDX")
            if any(self.objs[k].life == "X" for k in cl):
                raise ModelError("the save-update cascade reaches a deleted object")
            for k in cl:
                self._attach(k)

    def setrel(self, x, key, y):
        kind, r = self.spec.find_rel(self.objs[x].cls, key)
        if kind == "m2o":
            self._set_parent(r, x, y, "m2o")
        elif kind == "o2m" and not r.uselist:
            # one-to-one from the parent side: displaces the previous child
            for c in self.children(r, x):
                if c != y:
                    if getattr(self, "_merging", False):
                        self.taint.add("f5")
                    self._set_parent(r, c, None, "o2m")
            if y is not None:
                self._set_parent(r, y, x, "o2m")
        else:
            raise AssertionError(key)

    def append(self, x, key, y):
        kind, r = self.spec.find_rel(self.objs[x].cls, key)
        if kind == "o2m":
            self._set_parent(r, y, x, "o2m")
        elif kind in ("l", "r"):
            l, rr = (x, y) if kind == "l" else (y, x)
            lst = self.mm.setdefault((r.name, l), [])
            if rr not in lst:
                lst.append(rr)
            self.dirty.update((x, y))
            self.mmtouched.add((r.name, l, rr))
            casc = r.c_l if kind == "l" else r.c_r
            if "save-update" in casc and self.in_sess(x) and not self.in_sess(y):
                self.add_cascaded(y)

    def remove(self, x, key, y):
        kind, r = self.spec.find_rel(self.objs[x].cls, key)
        if kind == "o2m":
            if self.parent(r, y) == x:
                self._set_parent(r, y, None, "o2m")
        else:
            l, rr = (x, y) if kind == "l" else (y, x)
            lst = self.mm.get((r.name, l), [])
            if rr in lst:
                lst.remove(rr)
            self.dirty.update((x, y))
            self.mmtouched.add((r.name, l, rr))

    def replace(self, x, key, ys):
        kind, r = self.spec.find_rel(self.objs[x].cls, key)
        if kind == "o2m":
            for c in self.children(r, x):
                if c not in ys:
                    self._set_parent(r, c, None, "o2m")
            for y in ys:
                self._set_parent(r, y, x, "o2m")
        else:
            cur = self.rights(r, x) if kind == "l" else self.lefts(r, x)
            for y in cur:
                if y not in ys:
                    self.remove(x, key, y)
            for y in ys:
                self.append(x, key, y)

    # ------------------------------------------------------------ merge
    def merge(self, op):
        """('merge', x, 'plain') | ('merge', x, 'rel', key, (names...)): the source is a transient copy of universe
        object x (data column = 'mg'), optionally with one relationship set to copies of other universe objects (the
        backref fills the reverse side on the copies).  Documented rule: target = object with that identity in the
        session, else row loaded, else new pending instance; every attribute present on the source is copied;
        relationships are followed where the cascade contains 'merge'.  -> name of the result"""
        spec = self.spec
        x = op[1]
        src = {x: {}}
        if op[2] == "rel":
            key, targets = op[3], list(op[4])
            kind, r = spec.find_rel(self.universe[x][0], key)
            if kind == "m2o":
                src[x][key] = targets[0] if targets else None
                back, backlist = r.o2m, r.uselist
            elif kind == "o2m":
                src[x][key] = targets if r.uselist else (targets[0] if targets else None)
                back, backlist = r.m2o, False
            else:
                src[x][key] = targets
                back, backlist = (r.rkey if kind == "l" else r.lkey), True
            for t in targets:
                src.setdefault(t, {})
                if back and not backlist:
                    # the backref fills a scalar reverse side on the copy; a collection reverse side of a transient
                    # copy only gets a queued append and does not count as present on the source
                    src[t][back] = x
        self._merging = True
        try:
            return self._merge_one(x, src, {})
        finally:
            self._merging = False

    def _merge_one(self, n, src, memo):
        if n in memo:
            return memo[n]
        spec = self.spec
        cname, kw = self.universe[n]
        c = spec.cls[cname]
        pk = kw[c.pk]
        root = spec.root(cname)
        target = None
        for k, o in self.objs.items():
            if o.life == "S" and spec.root(o.cls) == root and o.dbpk == pk:
                target = k
        if target is None:
            if pk in self.rows[c.tabs[0].name]:
                raise ModelError("row exists but its object is not in the session: an anonymous copy would be loaded")
            target = "mg:%s:%s" % (cname, pk)
            i = 1
            while target in self.objs:
                i += 1
                target = "mg:%s:%s#%d" % (cname, pk, i)
            self.objs[target] = Obj(cname, {a: None for a in c.cols}, "P")
        elif self.objs[target].cls != cname:
            raise ModelError("merge into an instance of another class")
        memo[n] = target
        o = self.objs[target]
        for a in c.cols:
            if a in kw:
                o.vals[a] = kw[a]
        o.vals[spec.data_col(cname)] = "mg"
        self.dirty.add(target)
        for key, val in src[n].items():
            kind, r = spec.find_rel(cname, key)
            casc = {"m2o": r.c_m2o, "o2m": r.c_o2m}.get(kind) if kind in ("m2o", "o2m") else (r.c_l if kind == "l" else r.c_r)
            if "merge" not in casc:
                continue
            if kind == "m2o" or (kind == "o2m" and not r.uselist):
                v = self._merge_one(val, src, memo) if val is not None else None
                self.setrel(target, key, v)
            else:
                vs = [self._merge_one(t, src, memo) for t in val]
                self.replace(target, key, vs)
        return target

    def current(self, x, key):
        kind, r = self.spec.find_rel(self.objs[x].cls, key)
        if kind == "m2o":
            return self.parent(r, x)
        if kind == "o2m":
            ch = self.children(r, x)
            return ch if r.uselist else (ch[0] if ch else None)
        return self.rights(r, x) if kind == "l" else self.lefts(r, x)

    # ------------------------------------------------------------ flush
    def expect_flush(self, at_commit=False, af=True):
        """-> dict(outcomes=[(tag, post model)], primary first; error=bool acceptable to raise, must_error=bool,
        open=bool, why=str).  tag None = what the rules say (or an outcome the documentation leaves open);
        tag 'f1'/'f3' = outcome of a catalogued defect (see ormworld2.KNOWN_QUIRKS)."""
        soft = sorted(k for k in self.soft if k in self.deparented and self.objs[k[1]].life == "S" and self.parent(self.spec.link[k[0]], k[1]) is None)
        alts = []
        seen = set()
        for stale in (None, "all", "orphan"):
            if stale == "all" and af:
                continue
            for mask in range(1 << len(soft)):
                keep = {soft[i] for i in range(len(soft)) if mask >> i & 1}
                for cancel in (False, True):
                    base = self._flush_one(at_commit, keep, stale, cancel, False)
                    cands = sorted(base["stale_cands"], key=repr)
                    subsets = [False] + [frozenset(cands[i] for i in range(len(cands)) if mask2 >> i & 1) for mask2 in range(1, 1 << min(len(cands), 3))]
                    for stale_pk in subsets:
                        a = base if stale_pk is False else self._flush_one(at_commit, keep, stale, cancel, stale_pk)
                        key = a["post"].canon() if not a["must_error"] else ("err", a["why"])
                        if key in seen:
                            continue
                        seen.add(key)
                        a["tag"] = "f1" if keep else ("f3" if stale == "orphan" else ("f9" if stale_pk else None))
                        alts.append(a)
        first = alts[0]
        ok = [a for a in alts if not a["must_error"]]
        known_err = None
        if not first["error"]:
            # catalogued defects that make a flush fail although the final state is fine
            if self._flush_one(at_commit, set(), None, orphan_cascade=False)["must_error"]:
                known_err = "f6"
        if known_err is None and not first["error"] and first["union_cycle"]:
            known_err = "f11"
        known_any = "f7" if first["mixed_switch"] else None
        return dict(outcomes=[(a["tag"], a["post"]) for a in ok], error=any(a["error"] for a in alts), must_error=not ok,
                    open=first["open"], why=first["why"], known_err=known_err, known_any=known_any)

    def _flush_one(self, at_commit, keep, stale, cancel=False, stale_pk=False, orphan_cascade=True):
        spec = self.spec
        m = self.copy()
        m.deparented -= keep
        sess = [n for n in sorted(m.objs) if m.objs[n].life in "PS"]
        # ---- pending orphans expunged instead of inserted; persistent orphans deleted
        dele = set(n for n in sess if m.objs[n].marked)
        orphans = set()
        for l in spec.links:
            if "delete-orphan" not in l.c_o2m:
                continue
            for n in sess:
                o = m.objs[n]
                if not spec.isa(o.cls, l.holder) or m.parent(l, n) is not None:
                    continue
                if o.life == "S" and (l.name, n) in m.deparented and n in m.dirty:
                    dele.add(n)
                    orphans.add(n)
                elif o.life == "P" and o.oos:
                    o.life = "T"
        sess = [n for n in sess if m.objs[n].life in "PS"]
        orphans0 = set(orphans)
        # ---- delete cascade, evaluated on the graph as it is now
        changed = True
        # a detached object whose row still exists: persistent neighbours may hold it or a freshly loaded anonymous copy of
        # its row, depending on what was loaded when -- the rows of such a flush are not predicted
        open_ = m.open or any(o.life == "D" and o.dbpk is not None for o in m.objs.values())
        while changed:
            changed = False
            for x in sorted(dele):
                if not orphan_cascade and x in orphans0:
                    continue
                nb = m.neighbours(x, "delete", lives="SD")
                if stale == "all" or (stale == "orphan" and x in orphans):
                    # the cascade loads the collection from the database, which does not know about pending changes
                    for n in m._row_neighbours(x, "delete"):
                        if n not in nb:
                            nb.append(n)
                            if stale == "orphan":
                                orphans.add(n)
                for n in nb:
                    if stale == "orphan" and x in orphans:
                        orphans.add(n)
                    if m.objs[n].life == "D":
                        if m.objs[n].dbpk is None:
                            continue
                        open_ = True
                        m.fuzzy.add(n)
                    if n not in dele:
                        dele.add(n)
                        changed = True
        if cancel:
            # an object that joined a collection of a surviving in-session parent since the last flush is not deleted by
            # this flush (it stays marked; "re-associated")
            for n in sorted(dele):
                o = m.objs[n]
                for l in m.links_as_holder(o.cls):
                    p = m.parent(l, n)
                    if (l.o2m and p is not None and p not in dele and m.objs[p].life in "PS" and o.life == "S"
                            and (m.rows[l.table].get(o.dbpk, {}).get(l.fk) != m.objs[p].dbpk or (l.name, n) in m.reltouched)):
                        dele.discard(n)
        sess = [n for n in sorted(m.objs) if m.objs[n].life in "PS"]
        warn_dead = None
        # ---- rows of surviving objects
        rows = {t: {k: dict(r) for k, r in rs.items()} for t, rs in m.rows.items()}
        assoc = {t: set(s) for t, s in m.assoc.items()}
        # deletes first (a pending object may take over the key of a deleted one: "row switch")
        for n in sorted(dele):
            o = m.objs[n]
            for t in spec.cls[o.cls].tabs:
                rows[t.name].pop(o.dbpk, None)
        # children of deleted parents on links without delete cascade: FK := NULL
        alt_err = False
        may_err = False
        for l in spec.links:
            for n in sess:
                o = m.objs[n]
                if not spec.isa(o.cls, l.holder):
                    continue
                p = m.parent(l, n)
                if n in dele:
                    if p is not None and p in dele and o.life == "S" and (m.rows[l.table].get(o.dbpk, {}).get(l.fk) != m.objs[p].dbpk or (l.name, n) in m.reltouched):
                        open_ = True  # joined a parent that is being deleted: the cascade may not see it
                    continue
                if p is not None and p in dele:
                    if l.o2m is None:
                        pass  # nothing manages the referencing side of a one-directional many-to-one: dangling reference
                    elif o.life == "S" and "delete" in l.c_o2m:
                        pass  # only in the variant where an orphan is deleted without its cascade: nothing nulls either
                    elif o.life == "S":
                        if rows[l.table].get(o.dbpk, {}).get(l.fk) != m.objs[p].dbpk or (l.name, n) in m.reltouched:
                            open_ = True  # associated with the deleted parent since the last flush: open
                        m.par[(l.name, n)] = None
                    else:
                        # pending child of a deleted parent: nothing documented de-associates it
                        alt_err = True
        # key changes (ON UPDATE CASCADE / ORM cascade moves every referencing row)
        moves = []
        for n in sess:
            if n in dele:
                continue
            o = m.objs[n]
            c = spec.cls[o.cls]
            newpk = o.vals[c.pk]
            if o.life == "S" and o.dbpk != newpk:
                moves.append((n, o, c, o.dbpk, newpk))
        if moves and any(o.life == "D" and o.dbpk is not None for o in m.objs.values()):
            open_ = True
        mixed_switch = False
        for n in sess:
            if n not in dele and m.objs[n].life == "P":
                for d in dele:
                    if (m.objs[d].cls != m.objs[n].cls and spec.root(m.objs[d].cls) == spec.root(m.objs[n].cls)
                            and m.objs[d].dbpk == m.pk(n)):
                        mixed_switch = True
        if any(n in m.stale for n in dele):
            open_ = True  # its collection still lists an object deleted by an earlier flush (documented staleness until expiry)
        for mn, l_, r_ in m.mmtouched:
            if l_ in dele or r_ in dele:
                open_ = True  # collection of / with an object that is being deleted was modified in the same flush
        oldkeys = {(spec.root(o.cls), old) for n, o, c, old, new_ in moves} | {(spec.root(m.objs[d].cls), m.objs[d].dbpk) for d in dele}
        popped = []
        for n, o, c, old, new_ in moves:
            if (spec.root(o.cls), new_) in oldkeys:
                may_err = True  # takes a key that another row gives up in the same flush: statement order decides
            popped.append([rows[t.name].pop(old, None) for t in c.tabs])
        stale_rows = {}
        stale_cands = set()
        for (n, o, c, old, new_), prs in zip(moves, popped):
            for t, r in zip(c.tabs, prs):
                if r is not None:
                    if new_ in rows[t.name]:
                        alt_err = True
                    r[t.pk] = new_
                    rows[t.name][new_] = r
            for l in m.links_as_target(o.cls):
                for cpk, r in rows[l.table].items():
                    if r.get(l.fk) == old:
                        r[l.fk] = new_
                        if not l.passive_updates:
                            stale_rows[(l.name, cpk)] = new_
            for mm_ in spec.m2ms:
                if spec.isa(o.cls, mm_.left):
                    assoc[mm_.table] = {((new_ if a == old else a), b_) for a, b_ in assoc[mm_.table]}
                if spec.isa(o.cls, mm_.right):
                    assoc[mm_.table] = {(a, (new_ if b_ == old else b_)) for a, b_ in assoc[mm_.table]}
        dup = False
        for n in sess:
            if n in dele:
                continue
            o = m.objs[n]
            c = spec.cls[o.cls]
            pk = o.vals[c.pk]
            if pk is None:
                alt_err = True
                continue
            for t in c.tabs:
                tr = rows[t.name]
                if o.life == "P" and pk in tr:
                    dup = True
                r = tr.get(pk) if o.life == "S" else None
                if r is None:
                    r = {col: None for col in t.cols}
                    tr[pk] = r
                r[t.pk] = pk
                for a, col in c.cols.items():
                    if col in t.cols:
                        r[col] = o.vals[a]
                for col, v in c.fixed.items():
                    if col in t.cols:
                        r[col] = v
            for l in m.links_as_holder(o.cls):
                p = m.parent(l, n)
                tr = rows[l.table][pk]
                if p is None:
                    tr[l.fk] = None
                else:
                    po = m.objs[p]
                    if po.life in "PS" and p not in dele:
                        tr[l.fk] = po.vals[spec.cls[po.cls].pk]
                    elif p in dele:
                        tr[l.fk] = po.dbpk  # pending child of a deleted parent (alt_err)
                    else:
                        # parent not in the session: "will not proceed"; the column keeps its value
                        warn_dead = "related object %s of %s not in session" % (p, n)
                sk = (l.name, o.dbpk) if (l.name, o.dbpk) in stale_rows else ((l.name, pk) if (l.name, pk) in stale_rows else None)
                if sk is not None and o.life == "S" and tr[l.fk] != stale_rows[sk]:
                    stale_cands.add(sk)
                    if stale_pk and sk in stale_pk:
                        # passive_updates=False: the renamed parent's collection is loaded from the database during the
                        # flush and a row found there follows the new key, whatever the objects say
                        tr[l.fk] = stale_rows[sk]
        # an in-session parent whose collection holds an object that is not in the session: "will not proceed"
        for (ln, c_), p_ in m.par.items():
            if p_ is not None and m.objs[p_].life in "PS" and p_ not in dele and m.objs[c_].life in "TD" and spec.link[ln].o2m:
                if not (m.objs[c_].life == "D" and m.objs[c_].dbpk is None):
                    warn_dead = "collection member %s of %s not in session" % (c_, p_)
        # ---- association rows
        for mm_ in spec.m2ms:
            a = assoc[mm_.table]
            lroot, rroot = spec.root(mm_.left), spec.root(mm_.right)
            named_l = {m.objs[n].dbpk: n for n in m.objs if m.objs[n].life == "S" and spec.root(m.objs[n].cls) == lroot}
            named_r = {m.objs[n].dbpk: n for n in m.objs if m.objs[n].life == "S" and spec.root(m.objs[n].cls) == rroot}
            new = set()
            for lp, rp in a:
                ln, rn = named_l.get(lp), named_r.get(rp)
                if ln is not None and ln in dele:
                    continue
                if rn is not None and rn in dele:
                    if mm_.rkey:
                        continue
                    # unidirectional: nothing removes the row -> dangling reference
                if ln is not None and rn is not None and ln not in dele and rn not in dele:
                    if rn not in m.rights(mm_, ln):
                        continue
                    lp, rp = m.pk(ln), m.pk(rn)
                new.add((lp, rp))
            for n in sess:
                if n in dele and spec.isa(m.objs[n].cls, mm_.left):
                    for r in m.rights(mm_, n):
                        if m.objs[r].life in "PS" and (m.objs[n].dbpk, m.objs[r].dbpk) not in a:
                            may_err = True  # collection of an object that is being deleted was extended: open
                if n in dele or not spec.isa(m.objs[n].cls, mm_.left):
                    continue
                for r in m.rights(mm_, n):
                    ro = m.objs[r]
                    if ro.life in "PS" and r not in dele:
                        new.add((m.pk(n), m.pk(r)))
                    elif r in dele:
                        if (m.objs[n].dbpk, ro.dbpk) not in a:
                            may_err = True  # put into a collection and deleted in the same flush: open
                    elif ro.life in "TD":
                        warn_dead = "collection member %s of %s not in session" % (r, n)
            for n in sess:
                if n in dele or not (mm_.rkey and spec.isa(m.objs[n].cls, mm_.right)):
                    continue
                for l in m.lefts(mm_, n):
                    if m.objs[l].life in "TD":
                        warn_dead = "collection member %s of %s not in session" % (l, n)
            assoc[mm_.table] = new
        # ---- constraints of the final state
        bad = m._violations(rows, assoc, at_commit) or dup
        if m._row_cycle(rows):
            may_err = True  # writable only if the flush does not have to create the loop in one go
        # ---- post state
        for n in sorted(dele):
            o = m.objs[n]
            o.life = "X"
            o.marked = False
        for n in sess:
            if n in dele:
                continue
            o = m.objs[n]
            o.life = "S"
            o.oos = False
            o.dbpk = m.pk(n)
        # normalise: nobody keeps a reference to a deleted object
        for k, v in list(m.par.items()):
            if v is not None and m.objs[v].life == "X" and m.objs[k[1]].life == "S":
                m.par[k] = None  # (objects outside the session keep what they hold in memory)
            if m.objs[k[1]].life == "X":
                del m.par[k]
        for k in list(m.mm):
            if m.objs[k[1]].life == "X":
                for r in m.mm[k]:
                    if m.objs[r].life == "S":
                        m.stale.add(r)
                del m.mm[k]
            else:
                if any(m.objs[r].life == "X" for r in m.mm[k]):
                    m.stale.add(k[1])
                m.mm[k] = [r for r in m.mm[k] if m.objs[r].life != "X"]
        m.deparented = {(l, c) for (l, c) in m.deparented if m.objs[c].life != "X"}
        m.dirty = set()
        m.reltouched = set()
        m.mmtouched = set()
        m.rows, m.assoc = rows, assoc
        m.open = False
        if warn_dead:
            m.dead = warn_dead
            open_ = True  # "not in session ... will not proceed": what the flush writes for that object is not predicted
        m.soft = {k for k in m.soft if k in m.deparented}
        return dict(post=m, stale_cands=stale_cands, mixed_switch=mixed_switch, may_err=may_err, union_cycle=self._union_cycle(self.rows, rows), error=bool(bad or alt_err or open_ or may_err),
                    must_error=bool(bad or alt_err) and not open_, open=open_, why=(m._violations(rows, assoc, at_commit) or ("duplicate key" if dup else None) or ("pending child of deleted parent" if alt_err else None)))

    def _union_cycle(self, old, new):
        """self-referential links: do the parent links before and after the flush together contain a loop?"""
        spec = self.spec
        for l in spec.links:
            if spec.root(l.holder) != spec.root(l.target) or l.post_update:
                continue
            edges = {}
            for rows in (old, new):
                for pk, r in rows[l.table].items():
                    if r.get(l.fk) is not None:
                        edges.setdefault(pk, set()).add(r[l.fk])
            state = {}

            def visit(n):
                if state.get(n) == 1:
                    return True
                if state.get(n) == 2:
                    return False
                state[n] = 1
                if any(visit(x) for x in edges.get(n, ())):
                    return True
                state[n] = 2
                return False

            if any(visit(n) for n in list(edges)):
                return True
        return False

    def _row_cycle(self, rows):
        spec = self.spec
        for l in spec.links:
            if spec.root(l.holder) == spec.root(l.target) and not l.post_update:
                # rows that refer to each other in a loop cannot be written without post_update (documented)
                for pk in rows[l.table]:
                    seen, k = set(), pk
                    while k is not None and k not in seen:
                        seen.add(k)
                        k = rows[l.table].get(k, {}).get(l.fk)
                    if k is not None:
                        return "row cycle on %s.%s (needs post_update)" % (l.table, l.fk)
        return None

    def _violations(self, rows, assoc, at_commit):
        spec = self.spec
        for l in spec.links:
            if l.deferred and not at_commit:
                continue
            ttab = spec.cls[l.target].tabs[0].name
            for pk, r in rows[l.table].items():
                v = r.get(l.fk)
                if v is None:
                    if not l.nullable:
                        return "NOT NULL %s.%s" % (l.table, l.fk)
                elif v not in rows[ttab]:
                    return "FOREIGN KEY %s.%s=%r" % (l.table, l.fk, v)
        for c in spec.cls.values():
            for t in c.tabs[1:]:
                for pk in rows[t.name]:
                    if pk not in rows[c.tabs[0].name]:
                        return "FOREIGN KEY %s.%s=%r" % (t.name, t.pk, pk)
            for col, v in c.fixed.items():
                pass
        for mm_ in spec.m2ms:
            lt = spec.cls[mm_.left].tabs[0].name
            rt = spec.cls[mm_.right].tabs[0].name
            for a, b in assoc[mm_.table]:
                if a not in rows[lt] or b not in rows[rt]:
                    return "FOREIGN KEY %s (%r,%r)" % (mm_.table, a, b)
        return None

    # ------------------------------------------------------------ commit / reload
    def after_commit(self):
        """expire_on_commit: every persistent object shows the database on next access"""
        spec = self.spec
        self.committed = (copy.deepcopy(self.rows), copy.deepcopy(self.assoc))
        if any(o.life == "D" and o.dbpk is not None for o in self.objs.values()):
            self.dead = "a detached object still has a row: reloads produce anonymous copies of it"
        for n, o in list(self.objs.items()):
            if o.life == "X":
                o.life = "D"  # deleted objects become detached; they have no row
                o.dbpk = None
        self.stale = set()
        self.taint = set()
        self.reload()

    def reload(self):
        """relationship state of persistent objects := what the rows say (anonymous twins for rows whose object is
        not a persistent named object)"""
        spec = self.spec
        held = {}
        for n, o in self.objs.items():
            if o.life == "S":
                held[(spec.root(o.cls), o.dbpk)] = n
        for n, o in self.objs.items():
            if o.life != "S":
                continue
            c = spec.cls[o.cls]
            row = {}
            for t in c.tabs:
                row.update(self.rows[t.name].get(o.dbpk, {}))
            o.vals = {a: row.get(col) for a, col in c.cols.items()}
            for l in self.links_as_holder(o.cls):
                fk = row.get(l.fk)
                self.par[(l.name, n)] = held.get((spec.root(l.target), fk)) if fk is not None else None
        # non-persistent children that claimed a persistent parent keep their claim (their own memory);
        for mm_ in spec.m2ms:
            for k in [k for k in self.mm if k[0] == mm_.name and self.objs[k[1]].life == "S"]:
                del self.mm[k]
            for lp, rp in sorted(self.assoc[mm_.table], key=repr):
                ln = held.get((spec.root(mm_.left), lp))
                rn = held.get((spec.root(mm_.right), rp))
                if ln is not None and rn is not None:
                    self.mm.setdefault((mm_.name, ln), []).append(rn)
        self.deparented = set()

    # ------------------------------------------------------------ graph by identity (what a new session must load)
    def graph_from_rows(self, rows=None, assoc=None):
        spec = self.spec
        rows = self.rows if rows is None else rows
        assoc = self.assoc if assoc is None else assoc
        out = {}
        for cname, c in spec.cls.items():
            if c.base is not None:
                continue
            for pk, r0 in rows[c.tabs[0].name].items():
                conc = cname
                for sub in spec.cls.values():
                    if sub.fixed and spec.isa(sub.name, cname) and all(r0.get(col) == v for col, v in sub.fixed.items()):
                        conc = sub.name
                row = {}
                for t in spec.cls[conc].tabs:
                    row.update(rows[t.name].get(pk, {}))
                d = {"__class__": conc}
                for a, col in spec.cls[conc].cols.items():
                    d[a] = row.get(col)
                for l in spec.links:
                    if l.m2o and spec.isa(conc, l.holder):
                        fk = row.get(l.fk)
                        d[l.m2o] = (spec.root(l.target), (fk,)) if fk is not None and fk in rows[spec.cls[l.target].tabs[0].name] else None
                    if l.o2m and spec.isa(conc, l.target):
                        kids = sorted(((spec.root(l.holder), (k,)) for k, r in rows[l.table].items() if r.get(l.fk) == pk), key=repr)
                        d[l.o2m] = kids if l.uselist else (kids[0] if kids else None)
                for mm_ in spec.m2ms:
                    if spec.isa(conc, mm_.left):
                        d[mm_.lkey] = sorted(((spec.root(mm_.right), (b,)) for a, b in assoc[mm_.table] if a == pk), key=repr)
                    if mm_.rkey and spec.isa(conc, mm_.right):
                        d[mm_.rkey] = sorted(((spec.root(mm_.left), (a,)) for a, b in assoc[mm_.table] if b == pk), key=repr)
                out[(cname, (pk,))] = d
        return out

    def rows_as_lists(self, rows=None, assoc=None):
        """same shape as ormworld2.read_rows"""
        spec = self.spec
        rows = self.rows if rows is None else rows
        assoc = self.assoc if assoc is None else assoc
        out = {}
        tabs = {}
        for c in spec.cls.values():
            for t in c.tabs:
                tabs[t.name] = t
        for tname, t in tabs.items():
            out[tname] = sorted((tuple(r.get(col) for col in t.cols) for r in rows[tname].values()), key=repr)
        for mm_ in spec.m2ms:
            out[mm_.table] = sorted(assoc[mm_.table], key=repr)
        return out

    def canon(self):
        objs = tuple((n, o.cls, o.life, o.marked, o.oos, tuple(sorted(o.vals.items(), key=repr))) for n, o in sorted(self.objs.items()))
        return (objs, tuple(sorted(self.par.items(), key=repr)), tuple(sorted((k, tuple(v)) for k, v in self.mm.items())),
                tuple(sorted(self.deparented)), tuple(sorted(self.soft)), tuple(sorted(self.dirty)), tuple(sorted(self.reltouched)), tuple(sorted(self.mmtouched)), tuple(sorted(self.stale)), tuple(sorted(self.taint)), repr(self.rows_as_lists()), self.dead, self.open)


# ---------------------------------------------------------------- alphabet


def _acyclic_after(m, link, child, newparent):
    """self-referential links: a parent chain must not loop (the library needs post_update for row cycles)"""
    if link.holder != link.target or newparent is None:
        return True
    n, seen = newparent, set()
    while n is not None and n not in seen:
        if n == child:
            return False
        seen.add(n)
        n = m.parent(link, n)
    return True


def enabled_ops(m, names, kinds=("add", "delete", "expunge", "set", "rel", "flush", "commit"), values=("z", None), pk_values=(), af=True):
    """the operations applicable in model state m, simplest first; only objects that are transient, pending or
    persistent are addressed, and never as a duplicate member of a collection"""
    spec = m.spec
    ops = []
    use = [n for n in names if n in m.objs and m.usable(n)]
    if "add" in kinds:
        ops += [("add", n) for n in use if m.objs[n].life == "T"]
    if "set" in kinds:
        for n in use:
            o = m.objs[n]
            dc = spec.data_col(o.cls)
            for v in values:
                if o.vals.get(dc) != v:
                    ops.append(("set", n, dc, v))
            c = spec.cls[o.cls]
            for a in c.cols:
                if a not in (dc, c.pk) and o.vals.get(a) != "z":
                    ops.append(("set", n, a, "z"))
            if c.pk_mutable:
                for v in pk_values:
                    if o.vals[c.pk] != v:
                        ops.append(("set", n, c.pk, v))
    if "rel" in kinds:
        for n in use:
            o = m.objs[n]
            if not af and o.life == "S" and o.dbpk != m.pk(n):
                continue  # autoflush off + unflushed key change: lazy loads of this object's collections use the new key
            for l in spec.links:
                if l.m2o and spec.isa(o.cls, l.holder):
                    cur = m.parent(l, n)
                    for y in [None] + [y for y in use if spec.isa(m.objs[y].cls, l.target)]:
                        if y != cur and y != n and _acyclic_after(m, l, n, y):
                            if y is not None and not l.uselist and m.children(l, y):
                                pass  # one-to-one: displaces; allowed
                            ops.append(("setrel", n, l.m2o, y))
                if l.o2m and spec.isa(o.cls, l.target):
                    kids = m.children(l, n)
                    cands = [y for y in use if spec.isa(m.objs[y].cls, l.holder) and y != n]
                    if l.uselist:
                        for y in cands:
                            if y not in kids and _acyclic_after(m, l, y, n):
                                ops.append(("append", n, l.o2m, y))
                        # a transient child that pointed itself at a persistent parent is not (reliably) a member of
                        # the parent's collection in memory: not addressed through it
                        vis = [y for y in kids if m.usable(y) and not (m.objs[y].life == "T" and m.objs[n].life == "S")]
                        for y in vis:
                            ops.append(("remove", n, l.o2m, y))
                        if kids and vis == kids:
                            ops.append(("replace", n, l.o2m, ()))
                            for y in cands:
                                if y not in kids and _acyclic_after(m, l, y, n):
                                    ops.append(("replace", n, l.o2m, (y,)))
                                    break
                    else:
                        cur = kids[0] if kids else None
                        for y in [None] + cands:
                            # taking over a child that is another parent's scalar child through the parent side leaves
                            # the previous parent's attribute stale in memory (scalar-to-scalar backref); the child
                            # side (child.parent = p) is the supported way and is enumerated
                            if y != cur and (y is None or m.parent(l, y) is None):
                                ops.append(("setrel", n, l.o2m, y))
            for mm_ in spec.m2ms:
                sides = []
                if spec.isa(o.cls, mm_.left):
                    sides.append((mm_.lkey, m.rights(mm_, n), mm_.right))
                if mm_.rkey and spec.isa(o.cls, mm_.right):
                    sides.append((mm_.rkey, m.lefts(mm_, n), mm_.left))
                for key, cur, tcls in sides:
                    cands = [y for y in use if spec.isa(m.objs[y].cls, tcls)]
                    for y in cands:
                        if y not in cur:
                            ops.append(("append", n, key, y))
                    for y in cur:
                        if m.usable(y):
                            ops.append(("remove", n, key, y))
                    if cur and all(m.usable(y) for y in cur):
                        ops.append(("replace", n, key, ()))
    if "merge" in kinds:
        for n in names:
            if n not in m.universe:
                continue
            cname = m.universe[n][0]
            ops.append(("merge", n, "plain"))
            for key, uselist in spec.rels_of(cname):
                kind, r = spec.find_rel(cname, key)
                tcls = {"m2o": r.target, "o2m": r.holder}.get(kind) if kind in ("m2o", "o2m") else (r.right if kind == "l" else r.left)
                cands = [y for y in names if y in m.universe and y != n and spec.isa(m.universe[y][0], tcls)]
                if uselist:
                    ops.append(("merge", n, "rel", key, ()))
                for y in cands[:2]:
                    ops.append(("merge", n, "rel", key, (y,)))
    if "delete" in kinds:
        ops += [("delete", n) for n in use if m.objs[n].life == "S" and not m.objs[n].marked]
    if "expunge" in kinds:
        ops += [("expunge", n) for n in use if m.objs[n].life in "PS"]
    if "flush" in kinds:
        ops.append(("flush",))
    if "commit" in kinds:
        ops.append(("commit",))
    return ops


def apply_op(m, op):
    """apply a non-flush op to the model in place; raises ModelError where the model predicts an error"""
    k = op[0]
    refs = [op[1]] if len(op) > 1 and k != "merge" else []
    if k in ("setrel", "append", "remove") and op[3] is not None:
        refs.append(op[3])
    if k == "replace":
        refs += list(op[3])
    for y in refs:
        if m.objs[y].life in "XD" and k != "add":
            raise ModelError("%s is deleted or detached" % y)
    if k == "add":
        m.add(op[1])
    elif k == "delete":
        m.delete(op[1])
    elif k == "expunge":
        m.expunge(op[1])
    elif k == "set":
        m.set(op[1], op[2], op[3])
    elif k == "setrel":
        m.setrel(op[1], op[2], op[3])
    elif k == "append":
        m.append(op[1], op[2], op[3])
    elif k == "remove":
        m.remove(op[1], op[2], op[3])
    elif k == "replace":
        m.replace(op[1], op[2], list(op[3]))
    elif k == "merge":
        m.last_merge = m.merge(op)
    else:
        raise AssertionError(op)
