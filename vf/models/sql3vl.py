"""sql3vl -- three-valued-logic reference evaluator over a small typed expression AST.

Trusted base of C01 / C07 / C08 (and usable by C41 / C43): a boring, direct
implementation of SQL expression semantics, written independently of
SQLAlchemy (this module imports nothing from it).  It is itself validated
against SQLite on every row of ``sqlworld`` by C01 (conformance step).

AST
---
Nested tuples, first element is the node kind::

    ("col", name)                    column reference, looked up in the row dict
    ("lit", value, type)             literal; type in "N" "S" "B"; value None = typed NULL
    ("add"|"sub"|"mul"|"truediv"|"floordiv"|"mod", x, y)      numeric (truediv: real division; floordiv: integer
                                     division of integers, FLOOR(x/y) otherwise)
    ("sqldiv", x, y)                 the SQL "/" operator: integer division when both operands are integers
    ("plus", x, y)                   T-SQL "+": concatenation when an operand is text, else addition
    ("neg", x)   ("floor", x)
    ("concat", x, y, ...)            string concatenation (numbers are rendered as SQLite does)
    ("lower", x)
    ("eq"|"ne"|"lt"|"le"|"gt"|"ge", x, y)
    ("is_null", x)  ("is_not_null", x)
    ("idf", x, y)  ("indf", x, y)    IS [NOT] DISTINCT FROM
    ("between"|"not_between", x, lo, hi)
    ("like"|"not_like"|"ilike"|"not_ilike", x, pattern[, escape_char_or_None])
    ("contains"|"startswith"|"endswith", x, y)   literal (wildcard-free) substring tests
    ("in"|"not_in", x, item, ...)    zero or more items
    ("and"|"or", x, y, ...)   ("not", x)
    ("is_true", x) ("is_false", x)   x = 1 / x = 0 style tests on a boolean (NULL stays NULL)
    ("case", cond, then, else_)
    ("cast", x, "N"|"S"|"F")         to integer / text / real
    ("ssq", x)                       scalar subquery returning x (identity)

Values
------
``None`` is SQL NULL (and UNKNOWN for booleans); booleans are Python
``True``/``False``; numbers ``int``/``float``; strings ``str``.  Use
:func:`to_backend` to map a result to what SQLite returns (True -> 1).

API
---
``compile_ast(ast, sem=SQLITE) -> f(row_dict) -> value``   closure, fast path
``evaluate(ast, row, sem=SQLITE) -> value``
``type_of(ast, coltypes) -> "N"|"S"|"B"``
``columns_of(ast) -> tuple of column names in first-use order``
``size(ast) -> number of operator nodes``
``to_backend(v)``, ``same_value(x, y)`` (NULL-aware equality, floats with 1e-9 relative tolerance)
``like_match(pattern, string, escape=None, ci=False)`` reference LIKE matcher
``fmt(ast)`` canonical compact text of a tree (signatures, samples)
``num_to_text(v)``, ``text_to_int(s)``, ``text_to_num(s)``  SQLite's number<->text conversions
``Semantics`` backend knobs: ``int_div`` "trunc"|"floor", ``div_zero`` "null"|"error", ``coerce_text`` (text operands of
arithmetic take their numeric prefix instead of raising ``SqlError``).  Presets: ``SQLITE`` (default; strict about
text in arithmetic), ``SQLITE_LAX`` (SQLite's implicit coercions; used to reproduce what SQLite does with mis-grouped text).
``SqlError`` is raised for operations outside the model (text compared with a number, arithmetic on text under a
strict Semantics, division by zero under div_zero="error").

Numeric corners follow SQLite: integer ``/`` truncates toward zero, ``%`` takes the sign of the dividend and casts real
operands to integer (result real if an operand was real), division / modulo by zero is NULL, CAST(real AS TEXT) uses 15
significant digits.  Strings compare by code point (BINARY collation, ASCII data).  LIKE is case sensitive (``ilike``
lowers ASCII on both sides), as on SQLite with ``PRAGMA case_sensitive_like=ON`` and on every other backend.
"""
from __future__ import annotations

import math
import re


class SqlError(Exception):
    """evaluation raised an SQL run-time error (e.g. division by zero under div_zero='error')"""


class Semantics:
    """backend-dependent corners; everything else is common to all SQL backends"""

    def __init__(self, name, int_div="trunc", div_zero="null", coerce_text=False):
        self.name = name
        self.int_div = int_div
        self.div_zero = div_zero
        self.coerce_text = coerce_text  # text operands of arithmetic become their numeric prefix (SQLite) instead of SqlError


SQLITE = Semantics("sqlite", int_div="trunc", div_zero="null")
SQLITE_LAX = Semantics("sqlite-lax", int_div="trunc", div_zero="null", coerce_text=True)

NUM_BIN = ("add", "sub", "mul", "truediv", "floordiv", "mod", "sqldiv", "plus")
CMP = ("eq", "ne", "lt", "le", "gt", "ge")
BOOL_KINDS = CMP + (
    "is_null", "is_not_null", "idf", "indf", "between", "not_between", "like", "not_like", "ilike", "not_ilike",
    "contains", "startswith", "endswith", "in", "not_in", "and", "or", "not", "is_true", "is_false",
)  # fmt: skip


# ------------------------------------------------------------------ helpers


def num_to_text(v):
    """SQLite's CAST(number AS TEXT) / implicit conversion in ||"""
    if isinstance(v, bool):
        return "1" if v else "0"
    if isinstance(v, int):
        return str(v)
    if v == 0:
        return "0.0"
    s = "%.15g" % v
    if "e" in s:
        m, e = s.split("e")
        if "." not in m:
            m += ".0"
        return m + "e" + e[0] + e[1:].lstrip("0")
    if "." not in s and "inf" not in s and "nan" not in s:
        s += ".0"
    return s


_INT_PREFIX = re.compile(r"^[ \t\n\r\f]*([+-]?\d+)")
_NUM_PREFIX = re.compile(r"^[ \t\n\r\f]*([+-]?(?:\d+\.?\d*|\.\d+)(?:[eE][+-]?\d+)?)")


def text_to_num(s):
    """SQLite's numeric value of a text operand in arithmetic: longest numeric prefix, else 0"""
    m = _NUM_PREFIX.match(s)
    if not m:
        return 0
    t = m.group(1)
    if "." in t or "e" in t or "E" in t:
        return float(t)
    return int(t)


def text_to_int(s):
    """SQLite's CAST(text AS INTEGER): longest integer prefix, else 0"""
    m = _INT_PREFIX.match(s)
    return int(m.group(1)) if m else 0


def _trunc_div(x, y):
    q = abs(x) // abs(y)
    return q if (x < 0) == (y < 0) else -q


def _c_rem(x, y):
    r = abs(x) % abs(y)
    return -r if x < 0 else r


def like_match(pattern, string, escape=None, ci=False):
    """SQL LIKE: % = any run, _ = any one char, escape char makes the next char literal.
    An escape character at the very end of the pattern matches nothing (SQLite: never matches)."""
    if ci:
        pattern, string = _ascii_lower(pattern), _ascii_lower(string)
        if escape is not None:
            escape = _ascii_lower(escape)
    toks = []  # ("lit", ch) | ("any",) | ("one",)
    i = 0
    while i < len(pattern):
        ch = pattern[i]
        if escape is not None and ch == escape:
            if i + 1 >= len(pattern):
                return False
            toks.append(("lit", pattern[i + 1]))
            i += 2
            continue
        if ch == "%":
            toks.append(("any",))
        elif ch == "_":
            toks.append(("one",))
        else:
            toks.append(("lit", ch))
        i += 1
    # simple DP over (token index, string index)
    reach = {0}
    for t in toks:
        nxt = set()
        if t[0] == "any":
            if reach:
                nxt = set(range(min(reach), len(string) + 1))
        elif t[0] == "one":
            nxt = {j + 1 for j in reach if j < len(string)}
        else:
            nxt = {j + 1 for j in reach if j < len(string) and string[j] == t[1]}
        reach = nxt
        if not reach:
            return False
    return len(string) in reach


def _ascii_lower(s):
    return "".join(chr(ord(c) + 32) if "A" <= c <= "Z" else c for c in s)


def to_backend(v):
    """value as SQLite returns it (booleans are integers)"""
    if v is True:
        return 1
    if v is False:
        return 0
    return v


def same_value(x, y, tol=1e-9):
    """NULL-aware equality of two backend values; floats compared with a relative tolerance
    (associativity flattening of float addition may change the last bit)"""
    if x is None or y is None:
        return x is None and y is None
    x, y = to_backend(x), to_backend(y)
    if isinstance(x, str) or isinstance(y, str):
        return type(x) is type(y) and x == y
    if isinstance(x, float) or isinstance(y, float):
        if x == y:
            return True
        if math.isinf(x) or math.isinf(y):
            return False
        return abs(x - y) <= tol * max(1.0, abs(x), abs(y))
    return x == y


# ------------------------------------------------------------------ static info


def type_of(ast, coltypes=None):
    k = ast[0]
    if k == "col":
        return (coltypes or DEFAULT_COLTYPES)[ast[1]]
    if k == "lit":
        return ast[2]
    if k in NUM_BIN or k in ("neg", "floor"):
        return "N"
    if k in ("concat", "lower"):
        return "S"
    if k in BOOL_KINDS:
        return "B"
    if k == "case":
        return type_of(ast[2], coltypes)
    if k == "cast":
        return "S" if ast[2] == "S" else "N"
    if k == "ssq":
        return type_of(ast[1], coltypes)
    raise ValueError("unknown node kind %r" % (k,))


DEFAULT_COLTYPES = dict(id="N", a="N", b="N", c="N", f="N", d="N", s="S", u="S", p="B")


def children(ast):
    k = ast[0]
    if k in ("col", "lit"):
        return ()
    if k == "cast":
        return (ast[1],)
    if k in ("like", "not_like", "ilike", "not_ilike"):
        return ast[1:3]
    return ast[1:]


def columns_of(ast, acc=None):
    acc = [] if acc is None else acc
    if ast[0] == "col":
        if ast[1] not in acc:
            acc.append(ast[1])
    else:
        for c in children(ast):
            columns_of(c, acc)
    return tuple(acc)


def size(ast):
    if ast[0] in ("col", "lit"):
        return 0
    return 1 + sum(size(c) for c in children(ast))


def fmt(ast):
    k = ast[0]
    if k == "col":
        return ast[1]
    if k == "lit":
        return "NULL:" + ast[2] if ast[1] is None else repr(ast[1])
    if k == "cast":
        return "cast(%s as %s)" % (fmt(ast[1]), ast[2])
    if k in ("like", "not_like", "ilike", "not_ilike") and len(ast) > 3 and ast[3] is not None:
        return "%s(%s,%s,esc=%r)" % (k, fmt(ast[1]), fmt(ast[2]), ast[3])
    return "%s(%s)" % (k, ",".join(fmt(c) for c in children(ast)))


# ------------------------------------------------------------------ evaluator


def _cmp_fn(k):
    if k == "eq":
        return lambda x, y: x == y
    if k == "ne":
        return lambda x, y: x != y
    if k == "lt":
        return lambda x, y: x < y
    if k == "le":
        return lambda x, y: x <= y
    if k == "gt":
        return lambda x, y: x > y
    return lambda x, y: x >= y


def _and3(vals):
    unk = False
    for v in vals:
        if v is None:
            unk = True
        elif not v:
            return False
    return None if unk else True


def _or3(vals):
    unk = False
    for v in vals:
        if v is None:
            unk = True
        elif v:
            return True
    return None if unk else False


def _not3(v):
    return None if v is None else (not v)


def _truth(v):
    """SQL truth value of an arbitrary value used in boolean position (SQLite: numeric non-zero)"""
    if v is None or isinstance(v, bool):
        return v
    if isinstance(v, str):
        return text_to_int(v) != 0
    return v != 0


def _key(v):
    """comparison key: booleans compare as integers"""
    return int(v) if isinstance(v, bool) else v


def _pair(x, y):
    """comparison keys of two non-NULL values; comparing text with a number is outside the model"""
    x, y = _key(x), _key(y)
    if isinstance(x, str) != isinstance(y, str):
        raise SqlError("comparison between text and number")
    return x, y


def compile_ast(ast, sem=SQLITE):
    """return a closure row_dict -> value"""
    k = ast[0]
    if k == "col":
        name = ast[1]
        return lambda row: row[name]
    if k == "lit":
        v = ast[1]
        return lambda row: v
    if k == "ssq":
        return compile_ast(ast[1], sem)
    if k == "cast":
        f = compile_ast(ast[1], sem)
        to = ast[2]

        def cast(row):
            v = f(row)
            if v is None:
                return None
            if to == "S":
                return v if isinstance(v, str) else num_to_text(v)
            if to == "N":
                if isinstance(v, str):
                    return text_to_int(v)
                return int(v)  # truncates toward zero; bool -> int
            if to == "F":
                if isinstance(v, str):
                    raise SqlError("cast text to real not modelled")
                return float(v)
            raise ValueError(to)

        return cast
    fs = [compile_ast(c, sem) for c in children(ast)]
    if k in NUM_BIN:
        fx, fy = fs

        def arith(row):
            x, y = fx(row), fy(row)
            if x is None or y is None:
                return None
            x, y = _key(x), _key(y)
            if isinstance(x, str) or isinstance(y, str):
                if k == "plus":
                    return (x if isinstance(x, str) else num_to_text(x)) + (y if isinstance(y, str) else num_to_text(y))
                if not sem.coerce_text:
                    raise SqlError("arithmetic on text")
                if isinstance(x, str):
                    x = text_to_num(x)
                if isinstance(y, str):
                    y = text_to_num(y)
            if k == "add" or k == "plus":
                return x + y
            if k == "sub":
                return x - y
            if k == "mul":
                return x * y
            if k == "mod":
                isf = isinstance(x, float) or isinstance(y, float)
                xi, yi = int(x), int(y)
                if yi == 0:
                    if sem.div_zero == "null":
                        return None
                    raise SqlError("division by zero")
                r = _c_rem(xi, yi)
                return float(r) if isf else r
            if y == 0:
                if sem.div_zero == "null":
                    return None
                raise SqlError("division by zero")
            if k == "truediv":
                return float(x) / float(y)
            if k == "sqldiv":
                if isinstance(x, int) and isinstance(y, int):
                    return _trunc_div(x, y)
                return x / y
            # floordiv
            if isinstance(x, int) and isinstance(y, int):
                return _trunc_div(x, y) if sem.int_div == "trunc" else x // y
            return float(math.floor(x / y))

        return arith
    if k == "neg":
        (fx,) = fs

        def neg(row):
            x = fx(row)
            if isinstance(x, str):
                if not sem.coerce_text:
                    raise SqlError("arithmetic on text")
                x = text_to_num(x)
            return None if x is None else -_key(x)

        return neg
    if k == "floor":
        (fx,) = fs

        def floor(row):
            x = fx(row)
            if x is None:
                return None
            return x if isinstance(x, int) else float(math.floor(x))

        return floor
    if k == "lower":
        (fx,) = fs
        return lambda row: (lambda x: None if x is None else _ascii_lower(x if isinstance(x, str) else num_to_text(x)))(fs[0](row))
    if k == "concat":

        def concat(row):
            out = []
            null = False
            for f in fs:
                v = f(row)
                if v is None:
                    null = True
                else:
                    out.append(v if isinstance(v, str) else num_to_text(v))
            return None if null else "".join(out)

        return concat
    if k in CMP:
        fx, fy = fs
        op = _cmp_fn(k)

        def cmp(row):
            x, y = fx(row), fy(row)
            if x is None or y is None:
                return None
            x, y = _pair(x, y)
            return op(x, y)

        return cmp
    if k == "is_null":
        return lambda row: fs[0](row) is None
    if k == "is_not_null":
        return lambda row: fs[0](row) is not None
    if k in ("idf", "indf"):
        fx, fy = fs
        want = k == "idf"

        def idf(row):
            x, y = fx(row), fy(row)
            if x is None or y is None:
                d = not (x is None and y is None)
            else:
                x, y = _pair(x, y)
                d = x != y
            return d if want else not d

        return idf
    if k in ("between", "not_between"):
        fx, fl, fh = fs
        negate = k == "not_between"

        def between(row):
            x, lo, hi = fx(row), fl(row), fh(row)
            a = None if x is None or lo is None else (lambda p: p[0] >= p[1])(_pair(x, lo))
            b = None if x is None or hi is None else (lambda p: p[0] <= p[1])(_pair(x, hi))
            r = _and3((a, b))
            return _not3(r) if negate else r

        return between
    if k in ("like", "not_like", "ilike", "not_ilike"):
        fx, fp = fs
        esc = ast[3] if len(ast) > 3 else None
        ci = "ilike" in k
        negate = k.startswith("not_")

        def like(row):
            x, p = fx(row), fp(row)
            if x is None or p is None:
                return None
            if not isinstance(x, str):
                x = num_to_text(x)
            if not isinstance(p, str):
                p = num_to_text(p)
            r = like_match(p, x, esc, ci)
            return (not r) if negate else r

        return like
    if k in ("contains", "startswith", "endswith"):
        fx, fy = fs

        def sub(row):
            x, y = fx(row), fy(row)
            if x is None or y is None:
                return None
            if k == "contains":
                return y in x
            return x.startswith(y) if k == "startswith" else x.endswith(y)

        return sub
    if k in ("in", "not_in"):
        fx, items = fs[0], fs[1:]
        negate = k == "not_in"

        def in_(row):
            x = fx(row)
            vals = []
            for f in items:
                y = f(row)
                vals.append(None if x is None or y is None else (lambda p: p[0] == p[1])(_pair(x, y)))
            r = _or3(vals)
            return _not3(r) if negate else r

        return in_
    if k == "and":
        return lambda row: _and3([_truth(f(row)) for f in fs])
    if k == "or":
        return lambda row: _or3([_truth(f(row)) for f in fs])
    if k == "not":
        return lambda row: _not3(_truth(fs[0](row)))
    if k == "is_true":
        return lambda row: _truth(fs[0](row))
    if k == "is_false":
        return lambda row: _not3(_truth(fs[0](row)))
    if k == "case":
        fc, ft, fe = fs

        def case(row):
            c = _truth(fc(row))
            return ft(row) if c else fe(row)

        return case
    raise ValueError("unknown node kind %r" % (k,))


def evaluate(ast, row, sem=SQLITE):
    return compile_ast(ast, sem)(row)
