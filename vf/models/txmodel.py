"""Nested-transaction reference model (shared by C23, C27 and the ORM session checks).

The database content is an opaque hashable *value* (C23: a frozenset of marker
rows).  The model keeps

* ``pub``   -- what every other connection sees (the committed value),
* ``snaps`` -- ``None`` when no transaction is in progress, otherwise a tuple
  ``(v0, v1, ..., vk)``: ``v0`` is the value when the outer transaction began and
  ``vi`` (i >= 1) the value when savepoint *level i* was established,
* ``cur``   -- the value the transaction's own connection sees.

Semantics (the textbook ones the property quotes):

* ``rollback_to(i)`` undoes exactly the work since savepoint ``i``; that savepoint
  and every savepoint nested inside it are over afterwards (SQLAlchemy's
  ``NestedTransaction.rollback()`` never reuses the savepoint).
* ``release(i)`` keeps the work and merges it into the enclosing scope; savepoint
  ``i`` and everything nested inside it are over.
* ``commit()`` publishes ``cur``; ``rollback()`` (also: closing the connection)
  discards all unpublished work.  Both end every savepoint.

Instances are immutable; every operation returns a new model.
"""
from __future__ import annotations


class TxModel:
    __slots__ = ("pub", "snaps", "cur")

    def __init__(self, pub=frozenset(), snaps=None, cur=None):
        self.pub = pub
        self.snaps = snaps
        self.cur = pub if snaps is None else cur

    # ---- observers
    @property
    def in_tx(self):
        return self.snaps is not None

    @property
    def depth(self):
        """number of live savepoints (0 = only the outer transaction, or none)"""
        return 0 if self.snaps is None else len(self.snaps) - 1

    def visible(self):
        """what the transaction's own connection reads"""
        return self.cur

    def key(self):
        return (self.pub, self.snaps, self.cur)

    def __repr__(self):
        return "TxModel(pub=%r, snaps=%r, cur=%r)" % (self.pub, self.snaps, self.cur)

    # ---- transitions
    def begin(self):
        assert self.snaps is None, "begin inside a transaction"
        return TxModel(self.pub, (self.pub,), self.pub)

    def savepoint(self):
        """returns (model, level) with level >= 1"""
        assert self.snaps is not None
        m = TxModel(self.pub, self.snaps + (self.cur,), self.cur)
        return m, m.depth

    def write(self, value):
        """replace the connection-visible value (any insert/update/delete)"""
        assert self.snaps is not None
        return TxModel(self.pub, self.snaps, value)

    def add(self, row):
        return self.write(self.cur | {row})

    def rollback_to(self, level):
        assert self.snaps is not None and 1 <= level <= self.depth
        return TxModel(self.pub, self.snaps[:level], self.snaps[level])

    def release(self, level):
        assert self.snaps is not None and 1 <= level <= self.depth
        return TxModel(self.pub, self.snaps[:level], self.cur)

    def commit(self):
        assert self.snaps is not None
        return TxModel(self.cur)

    def rollback(self):
        return TxModel(self.pub)
