"""Vendor keyword lists as data (trusted base of C06), plus the run-time
re-validation of SQLite's list against the SQLite library in this sandbox.

Only SQLite can be asked.  For the other backends the sets below are the
*reserved* words of the vendor documentation -- words that cannot be used as
an unquoted table / column name:

* PostgreSQL 16, Appendix C "SQL Key Words": categories "reserved" and
  "reserved (can be function or type)" (src/include/parser/kwlist.h
  RESERVED_KEYWORD and TYPE_FUNC_NAME_KEYWORD).
* MySQL 8.0 "Keywords and Reserved Words": entries marked (R).
* MariaDB: the MySQL 5.5 reserved core that MariaDB forked from, plus the
  words MariaDB 10.2+ reserved for window functions / CTEs / set operations.
  Deliberately a *subset* (may miss, never invents).
* SQL Server "Reserved Keywords (Transact-SQL)" (current list; `WITHIN GROUP`
  is left out because the bare word `within` is not documented on its own).
* Oracle Database SQL Language Reference, "Oracle SQL Reserved Words"
  (COLUMN_VALUE and NESTED_TABLE_ID left out: the manual's note says they are
  not reserved as table names).
* SQLite: https://sqlite.org/lang_keywords.html (147 words, 3.40).  Most of
  them are *fallback* keywords that the parser accepts as identifiers; which
  ones really fail is decided at run time by `sqlite_bare_failures`.

Every list was cross-checked for spelling against the keyword tables shipped
with Pygments (an independent copy of the vendor lists available offline).
"""

SQLITE_KEYWORDS = """
abort action add after all alter always analyze and as asc attach autoincrement before begin between by cascade case
cast check collate column commit conflict constraint create cross current current_date current_time current_timestamp
database default deferrable deferred delete desc detach distinct do drop each else end escape except exclude exclusive
exists explain fail filter first following for foreign from full generated glob group groups having if ignore immediate
in index indexed initially inner insert instead intersect into is isnull join key last left like limit match
materialized natural no not nothing notnull null nulls of offset on or order others outer over partition plan pragma
preceding primary query raise range recursive references regexp reindex release rename replace restrict returning right
rollback row rows savepoint select set table temp temporary then ties to transaction trigger unbounded union unique
update using vacuum values view virtual when where window with without
""".split()

PG_RESERVED = """
all analyse analyze and any array as asc asymmetric both case cast check collate column constraint create
current_catalog current_date current_role current_time current_timestamp current_user default deferrable desc distinct
do else end except false fetch for foreign from grant group having in initially intersect into lateral leading limit
localtime localtimestamp not null offset on only or order placing primary references returning select session_user some
symmetric system_user table then to trailing true union unique user using variadic when where window with
authorization binary collation concurrently cross current_schema freeze full ilike inner is isnull join left like
natural notnull outer overlaps right similar tablesample verbose
""".split()

MYSQL_RESERVED = """
accessible add all alter analyze and as asc asensitive before between bigint binary blob both by call cascade case
change char character check collate column condition constraint continue convert create cross cube cume_dist
current_date current_time current_timestamp current_user cursor database databases day_hour day_microsecond day_minute
day_second dec decimal declare default delayed delete dense_rank desc describe deterministic distinct distinctrow div
double drop dual each else elseif empty enclosed escaped except exists exit explain false fetch first_value float
float4 float8 for force foreign from fulltext function generated get grant group grouping groups having high_priority
hour_microsecond hour_minute hour_second if ignore in index infile inner inout insensitive insert int int1 int2 int3
int4 int8 integer intersect interval into io_after_gtids io_before_gtids is iterate join json_table key keys kill lag
last_value lateral lead leading leave left like limit linear lines load localtime localtimestamp lock long longblob
longtext loop low_priority master_bind master_ssl_verify_server_cert match maxvalue mediumblob mediumint mediumtext
middleint minute_microsecond minute_second mod modifies natural not no_write_to_binlog nth_value ntile null numeric of
on optimize optimizer_costs option optionally or order out outer outfile over partition percent_rank precision primary
procedure purge range rank read reads read_write real recursive references regexp release rename repeat replace
require resignal restrict return revoke right rlike row rows row_number schema schemas second_microsecond select
sensitive separator set show signal smallint spatial specific sql sqlexception sqlstate sqlwarning sql_big_result
sql_calc_found_rows sql_small_result ssl starting stored straight_join system table terminated then tinyblob tinyint
tinytext to trailing trigger true undo union unique unlock unsigned update usage use using utc_date utc_time
utc_timestamp values varbinary varchar varcharacter varying virtual when where while window with write xor year_month
zerofill
""".split()

_MYSQL_ONLY = set(
    """cube cume_dist dense_rank empty first_value function generated get grouping groups io_after_gtids
    io_before_gtids json_table lag last_value lateral lead master_bind nth_value ntile of optimizer_costs percent_rank
    rank row row_number stored system virtual""".split()
)
MARIADB_RESERVED = [w for w in MYSQL_RESERVED if w not in _MYSQL_ONLY]

MSSQL_RESERVED = """
add all alter and any as asc authorization backup begin between break browse bulk by cascade case check checkpoint
close clustered coalesce collate column commit compute constraint contains containstable continue convert create cross
current current_date current_time current_timestamp current_user cursor database dbcc deallocate declare default delete
deny desc disk distinct distributed double drop dump else end errlvl escape except exec execute exists exit external
fetch file fillfactor for foreign freetext freetexttable from full function goto grant group having holdlock identity
identity_insert identitycol if in index inner insert intersect into is join key kill left like lineno load merge
national nocheck nonclustered not null nullif of off offsets on open opendatasource openquery openrowset openxml option
or order outer over percent pivot plan precision primary print proc procedure public raiserror read readtext
reconfigure references replication restore restrict return revert revoke right rollback rowcount rowguidcol rule save
schema securityaudit select semantickeyphrasetable semanticsimilaritydetailstable semanticsimilaritytable session_user
set setuser shutdown some statistics system_user table tablesample textsize then to top tran transaction trigger
truncate try_convert tsequal union unique unpivot update updatetext use user values varying view waitfor when where
while with writetext
""".split()

ORACLE_RESERVED = """
access add all alter and any as asc audit between by char check cluster column comment compress connect create current
date decimal default delete desc distinct drop else exclusive exists file float for from grant group having identified
immediate in increment index initial insert integer intersect into is level like lock long maxextents minus mlslabel
mode modify noaudit nocompress not nowait null number of offline on online option or order pctfree prior public raw
rename resource revoke row rowid rownum rows select session set share size smallint start successful synonym sysdate
table then to trigger uid union unique update user validate values varchar varchar2 view whenever where with
""".split()

RESERVED = {
    "postgresql": frozenset(PG_RESERVED),
    "mysql": frozenset(MYSQL_RESERVED),
    "mariadb": frozenset(MARIADB_RESERVED),
    "mssql": frozenset(MSSQL_RESERVED),
    "oracle": frozenset(ORACLE_RESERVED),
}

SOURCES = {
    "postgresql": "PostgreSQL 16 Appendix C (reserved + reserved (can be function or type))",
    "mysql": "MySQL 8.0 Reference Manual 'Keywords and Reserved Words', entries marked (R)",
    "mariadb": "MariaDB KB 'Reserved Words' (conservative subset: MySQL 5.5 core + window/CTE/set-operation words)",
    "mssql": "Microsoft 'Reserved Keywords (Transact-SQL)'",
    "oracle": "Oracle Database SQL Language Reference 'Oracle SQL Reserved Words'",
    "sqlite": "sqlite.org/lang_keywords.html, re-validated by execution",
}


def all_words():
    s = set(SQLITE_KEYWORDS)
    for v in RESERVED.values():
        s |= v
    return sorted(s)


_POSITIONS = dict(
    table=["CREATE TABLE {w} (x INTEGER)", "INSERT INTO {w} (x) VALUES (1)", "SELECT x FROM {w} WHERE {w}.x = 1", "UPDATE {w} SET x=2", "DELETE FROM {w}", "DROP TABLE {w}"],
    column=[
        "CREATE TABLE t ({w} INTEGER, y INTEGER)",
        "INSERT INTO t ({w}, y) VALUES (17, 4)",
        "SELECT {w} FROM t WHERE {w} = 17",
        "SELECT t.{w}, y FROM t WHERE t.{w} = 17 ORDER BY {w}",
        "UPDATE t SET {w}=2 WHERE {w}=17",
        "CREATE INDEX ix ON t ({w})",
    ],
    index=["CREATE TABLE t (x)", "CREATE INDEX {w} ON t (x)", "DROP INDEX {w}"],
    constraint=["CREATE TABLE t (x, CONSTRAINT {w} UNIQUE (x))"],
    schema=["ATTACH ':memory:' AS {w}", "CREATE TABLE {w}.t (x)", "SELECT x FROM {w}.t"],
    label=["SELECT 1 AS {w}"],
    alias=["CREATE TABLE t (x)", "SELECT {w}.x FROM t AS {w}"],
)


def sqlite_bare_failures(word, sqlite3_module):
    """positions in which SQLite rejects (or mis-reads) the bare word as an identifier"""
    bad = []
    for pos, sqls in _POSITIONS.items():
        c = sqlite3_module.connect(":memory:")
        try:
            for s in sqls:
                cur = c.execute(s.format(w=word))
                if pos == "column" and s.startswith("SELECT " + word + " "):
                    if cur.fetchall() != [(17,)]:
                        bad.append(pos + ":wrong-value")
                        break
        except sqlite3_module.Error:
            bad.append(pos)
        finally:
            c.close()
    return bad
