"""Strict DDL catalog model (reference backend for C14).

A tiny model of a database catalog that enforces what PostgreSQL enforces at
DDL time and SQLite does not:

* ``CREATE TABLE`` with an inline ``FOREIGN KEY`` requires the referenced table
  to exist already (or to be the table being created), the referenced columns
  to exist there and to be covered by its PRIMARY KEY or a UNIQUE constraint;
* ``ALTER TABLE .. ADD [CONSTRAINT n] FOREIGN KEY`` requires both tables;
* ``ALTER TABLE .. DROP CONSTRAINT n`` requires the table and that name on it;
* ``DROP TABLE`` requires that no *other* surviving table still has a foreign
  key pointing at it (no CASCADE is ever emitted by ``drop_all``);
* ``CREATE INDEX`` requires the table and its columns, ``DROP INDEX`` the index;
* creating something that exists / dropping something that does not is an error.

It consumes the DDL *constructs* that ``MetaData.create_all / drop_all`` hand to
an executor (``CreateTable``, ``AddConstraint``, ``DropConstraint``,
``DropTable``, ``CreateIndex``, ``DropIndex``).  The construct's type selects the
rule and its ``.element`` is cross-checked, but the facts that go into the
catalog (which constraints really are inline in this CREATE TABLE, which table
an ALTER really names) are read from the statement *as compiled for the
dialect*, because that text is what the backend sees and the compiler, not the
construct, decides whether a ``use_alter`` constraint is rendered inline.

``CatalogConnection`` is a ``MockConnection`` that (unlike the stock one) keeps
``checkfirst`` and ``CatalogDialect`` answers ``has_table`` / ``has_index`` from
the model, so ``checkfirst=True`` runs against a real (modelled) catalog state.
"""
from __future__ import annotations

import re

from sqlalchemy.dialects.postgresql.base import PGDialect
from sqlalchemy.engine.mock import MockConnection
from sqlalchemy.schema import AddConstraint
from sqlalchemy.schema import CreateIndex
from sqlalchemy.schema import CreateTable
from sqlalchemy.schema import DropConstraint
from sqlalchemy.schema import DropIndex
from sqlalchemy.schema import DropTable


class Reject(Exception):
    """the modelled backend refuses the statement"""

    def __init__(self, rule, msg):
        Exception.__init__(self, "%s: %s" % (rule, msg))
        self.rule = rule


class Unparsed(Exception):
    """statement outside the little grammar (harness problem, not a verdict)"""


# ------------------------------------------------------------------ lexer

_TOK = re.compile(
    r"""\s*(?:
        (?P<q>"(?:[^"]|"")*")      |
        (?P<s>'(?:[^']|'')*')      |
        (?P<w>[A-Za-z_][A-Za-z_0-9$]*) |
        (?P<n>\d+(?:\.\d+)?)       |
        (?P<p>[(),.;])             |
        (?P<o>[^\s\w"'(),.;]+)
    )""",
    re.X,
)


def lex(text):
    out = []
    pos = 0
    text = text.strip()
    while pos < len(text):
        m = _TOK.match(text, pos)
        if not m or m.end() == pos:
            raise Unparsed("cannot lex %r" % text[pos : pos + 20])
        pos = m.end()
        if m.group("q") is not None:
            out.append(("id", m.group("q")[1:-1].replace('""', '"')))
        elif m.group("w") is not None:
            out.append(("w", m.group("w")))
        elif m.group("p") is not None:
            out.append(("p", m.group("p")))
        elif m.group("s") is not None:
            out.append(("s", m.group("s")))
        elif m.group("n") is not None:
            out.append(("n", m.group("n")))
        else:
            out.append(("o", m.group("o")))
    return out


class _P:
    def __init__(self, toks):
        self.t = toks
        self.i = 0

    def peek(self, k=0):
        return self.t[self.i + k] if self.i + k < len(self.t) else ("eof", "")

    def kw(self, *words):
        """consume the keyword sequence if it is next"""
        for k, w in enumerate(words):
            kind, v = self.peek(k)
            if kind != "w" or v.upper() != w:
                return False
        self.i += len(words)
        return True

    def need_kw(self, *words):
        if not self.kw(*words):
            raise Unparsed("expected %s at %r" % (" ".join(words), self.t[self.i : self.i + 4]))

    def punct(self, ch):
        if self.peek() == ("p", ch):
            self.i += 1
            return True
        return False

    def need(self, ch):
        if not self.punct(ch):
            raise Unparsed("expected %r at %r" % (ch, self.t[self.i : self.i + 4]))

    def ident(self):
        kind, v = self.peek()
        if kind == "id":
            self.i += 1
            return v
        if kind == "w":
            self.i += 1
            return v.lower()  # unquoted identifiers fold (PG: to lower case)
        raise Unparsed("identifier expected at %r" % (self.t[self.i : self.i + 4],))

    def qname(self):
        a = self.ident()
        if self.punct("."):
            return (a, self.ident())
        return (None, a)

    def idlist(self):
        self.need("(")
        out = [self.ident()]
        while self.punct(","):
            out.append(self.ident())
        self.need(")")
        return tuple(out)

    def skip_item(self):
        """skip to the next top-level ',' or ')' (not consumed)"""
        depth = 0
        while True:
            kind, v = self.peek()
            if kind == "eof":
                raise Unparsed("unbalanced")
            if kind == "p" and v == "(":
                depth += 1
            elif kind == "p" and v == ")":
                if depth == 0:
                    return
                depth -= 1
            elif kind == "p" and v == "," and depth == 0:
                return
            self.i += 1

    def fk_tail(self):
        cols = self.idlist()
        self.need_kw("REFERENCES")
        rt = self.qname()
        rcols = self.idlist() if self.peek() == ("p", "(") else None
        return cols, rt, rcols


class FK:
    __slots__ = ("name", "cols", "rtable", "rcols", "inline")

    def __init__(self, name, cols, rtable, rcols, inline):
        self.name, self.cols, self.rtable, self.rcols, self.inline = name, cols, rtable, rcols, inline

    def key(self):
        return (self.cols, self.rtable, self.rcols)


class Tbl:
    def __init__(self, key):
        self.key = key
        self.cols = []
        self.pk = None
        self.uniques = set()
        self.fks = []


_PARSE_CACHE = {}


def parse(text):
    """-> (kind, payload) for one statement of the little grammar; payloads are
    shared between calls (cached by text): treat them as read-only"""
    r = _PARSE_CACHE.get(text)
    if r is None:
        if len(_PARSE_CACHE) > 200000:
            _PARSE_CACHE.clear()
        r = _PARSE_CACHE[text] = _parse(text)
    return r


def _parse(text):
    p = _P(lex(text))
    if p.kw("CREATE", "TABLE"):
        t = Tbl(p.qname())
        fks = []
        p.need("(")
        while True:
            cname = None
            if p.kw("CONSTRAINT"):
                cname = p.ident()
            if p.kw("PRIMARY", "KEY"):
                t.pk = p.idlist()
            elif p.kw("UNIQUE"):
                t.uniques.add(p.idlist())
            elif p.kw("FOREIGN", "KEY"):
                cols, rt, rcols = p.fk_tail()
                fks.append(FK(cname, cols, rt, rcols, True))
            elif p.kw("CHECK"):
                pass
            elif cname is None:
                col = p.ident()
                t.cols.append(col)
                # column-level constraints we care about
                j = p.i
                p.skip_item()
                words = [v.upper() for k, v in p.t[j : p.i] if k == "w"]
                if "PRIMARY" in words:
                    t.pk = (col,)
                if "UNIQUE" in words:
                    t.uniques.add((col,))
                if "REFERENCES" in words:
                    raise Unparsed("column-level REFERENCES not in the grammar")
            else:
                raise Unparsed("constraint kind at %r" % (p.t[p.i : p.i + 3],))
            p.skip_item()
            if p.punct(","):
                continue
            p.need(")")
            break
        return "create_table", (t, fks)
    if p.kw("ALTER", "TABLE"):
        tk = p.qname()
        if p.kw("ADD"):
            cname = None
            if p.kw("CONSTRAINT"):
                cname = p.ident()
            p.need_kw("FOREIGN", "KEY")
            cols, rt, rcols = p.fk_tail()
            return "add_fk", (tk, FK(cname, cols, rt, rcols, False))
        if p.kw("DROP", "CONSTRAINT"):
            return "drop_constraint", (tk, p.ident())
        raise Unparsed("ALTER form")
    if p.kw("DROP", "TABLE"):
        tk = p.qname()
        if p.peek()[0] != "eof":
            raise Unparsed("DROP TABLE trailing tokens %r" % (p.t[p.i :],))
        return "drop_table", tk
    unique = False
    j = p.i
    if p.kw("CREATE", "UNIQUE", "INDEX"):
        unique = True
    elif not p.kw("CREATE", "INDEX"):
        p.i = j
        if p.kw("DROP", "INDEX"):
            return "drop_index", p.qname()
        raise Unparsed("statement %r" % text.strip()[:40])
    iname = p.ident()
    p.need_kw("ON")
    tk = p.qname()
    cols = p.idlist()
    return "create_index", (iname, tk, cols, unique)


_KIND_OF = (
    (CreateTable, "create_table"),
    (AddConstraint, "add_fk"),
    (DropConstraint, "drop_constraint"),
    (DropTable, "drop_table"),
    (CreateIndex, "create_index"),
    (DropIndex, "drop_index"),
)


class Catalog:
    def __init__(self):
        self.tables = {}  # (schema, name) -> Tbl
        self.indexes = {}  # (schema, name) -> (table key, cols, unique)
        self.log = []  # [(kind, text)]

    # --- queries used by CatalogDialect (checkfirst) and by the oracle
    def has_table(self, name, schema=None):
        return (schema, name) in self.tables

    def has_index(self, table, index, schema=None):
        e = self.indexes.get((schema, index))
        return e is not None and e[0] == (schema, table)

    def snapshot(self):
        """canonical, order-free description of the catalog"""
        return (
            tuple(
                sorted(
                    (
                        k,
                        tuple(t.cols),
                        t.pk,
                        tuple(sorted(t.uniques)),
                        tuple(sorted((f.name or "", f.cols, f.rtable, f.rcols) for f in t.fks)),
                    )
                    for k, t in self.tables.items()
                )
            ),
            tuple(sorted((k, v) for k, v in self.indexes.items())),
        )

    def inbound(self, key):
        return [(t.key, f) for t in self.tables.values() if t.key != key for f in t.fks if f.rtable == key]

    # --- rules
    def _check_fk(self, owner, f, self_ok_table=None):
        for c in f.cols:
            if c not in owner.cols:
                raise Reject("fk-local-column", "column %r not in %r" % (c, owner.key))
        if self_ok_table is not None and f.rtable == self_ok_table.key:
            ref = self_ok_table
        else:
            ref = self.tables.get(f.rtable)
        if ref is None:
            raise Reject("referenced-table-missing", "%s references %s which does not exist" % (_n(owner.key), _n(f.rtable)))
        rcols = f.rcols if f.rcols is not None else ref.pk
        if rcols is None:
            raise Reject("referenced-no-pk", "%s has no primary key" % _n(ref.key))
        for c in rcols:
            if c not in ref.cols:
                raise Reject("referenced-column-missing", "column %r not in %s" % (c, _n(ref.key)))
        if len(rcols) != len(f.cols):
            raise Reject("fk-arity", "%r -> %r" % (f.cols, rcols))
        s = tuple(sorted(rcols))
        if not ((ref.pk is not None and tuple(sorted(ref.pk)) == s) or any(tuple(sorted(u)) == s for u in ref.uniques)):
            raise Reject("referenced-not-unique", "%s%r has no unique constraint" % (_n(ref.key), rcols))
        if f.name is not None and any(g.name == f.name for g in owner.fks):
            raise Reject("duplicate-constraint", "%r on %s" % (f.name, _n(owner.key)))

    def clone(self):
        c = Catalog()
        for _, text in self.log:
            c.apply_text(text)
        return c

    def apply_text(self, text, expect_kind=None):
        kind, pl = parse(text)
        if expect_kind is not None and kind != expect_kind:
            raise Reject("construct-text-mismatch", "construct is %s, text is %s" % (expect_kind, kind))
        self.log.append((kind, text))
        if kind == "create_table":
            t0, fks = pl
            t = Tbl(t0.key)
            t.cols, t.pk, t.uniques = list(t0.cols), t0.pk, set(t0.uniques)
            if t.key in self.tables:
                raise Reject("table-exists", _n(t.key))
            if len(set(t.cols)) != len(t.cols):
                raise Reject("duplicate-column", _n(t.key))
            for group in ([t.pk] if t.pk else []) + sorted(t.uniques):
                for c in group:
                    if c not in t.cols:
                        raise Reject("constraint-column-missing", "%r in %s" % (c, _n(t.key)))
            for f in fks:
                self._check_fk(t, f, self_ok_table=t)
                t.fks.append(f)
            self.tables[t.key] = t
        elif kind == "add_fk":
            tk, f = pl
            t = self.tables.get(tk)
            if t is None:
                raise Reject("alter-table-missing", _n(tk))
            self._check_fk(t, f)
            t.fks.append(f)
        elif kind == "drop_constraint":
            tk, name = pl
            t = self.tables.get(tk)
            if t is None:
                raise Reject("alter-table-missing", _n(tk))
            hit = [f for f in t.fks if f.name == name]
            if not hit:
                raise Reject("constraint-missing", "%r on %s" % (name, _n(tk)))
            t.fks.remove(hit[0])
        elif kind == "drop_table":
            tk = pl
            if tk not in self.tables:
                raise Reject("drop-table-missing", _n(tk))
            inb = self.inbound(tk)
            if inb:
                raise Reject(
                    "drop-referenced-table",
                    "cannot drop %s: %s" % (_n(tk), ", ".join("%s.%s%r" % (_n(k), f.name or "<unnamed>", f.cols) for k, f in inb)),
                )
            del self.tables[tk]
            for ik in [ik for ik, v in self.indexes.items() if v[0] == tk]:
                del self.indexes[ik]
        elif kind == "create_index":
            iname, tk, cols, unique = pl
            t = self.tables.get(tk)
            if t is None:
                raise Reject("index-table-missing", _n(tk))
            for c in cols:
                if c not in t.cols:
                    raise Reject("index-column-missing", "%r in %s" % (c, _n(tk)))
            ik = (tk[0], iname)
            if ik in self.indexes:
                raise Reject("index-exists", iname)
            self.indexes[ik] = (tk, cols, unique)
        elif kind == "drop_index":
            if pl not in self.indexes:
                raise Reject("index-missing", _n(pl))
            del self.indexes[pl]
        return kind

    def apply(self, construct, dialect):
        """one captured DDL construct -> catalog transition (or Reject)"""
        expect = None
        for cls, k in _KIND_OF:
            if isinstance(construct, cls):
                expect = k
                break
        if expect is None:
            raise Unparsed("construct %s not modelled" % type(construct).__name__)
        text = " ".join(str(construct.compile(dialect=dialect)).split())
        kind = self.apply_text(text, expect)
        # cross-check the statement against the construct's element
        el = construct.element
        kind2, pl = parse(text)
        if kind == "create_table":
            if pl[0].key != (el.schema, el.name) or pl[0].cols != [c.name for c in el.columns]:
                raise Reject("construct-text-mismatch", "CREATE TABLE text names %r, element is %r" % (pl[0].key, el.name))
        elif kind in ("add_fk", "drop_constraint"):
            if pl[0] != (el.table.schema, el.table.name):
                raise Reject("construct-text-mismatch", "ALTER names %r, constraint is on %r" % (pl[0], el.table.name))
        elif kind == "drop_table":
            if pl != (el.schema, el.name):
                raise Reject("construct-text-mismatch", "DROP TABLE names %r, element is %r" % (pl, el.name))
        return kind


def _n(key):
    return key[1] if key[0] is None else "%s.%s" % key


# ------------------------------------------------- checkfirst-capable mock


class CatalogDialect(PGDialect):
    """postgresql dialect whose existence checks are answered by the model"""

    supports_statement_cache = True
    catalog = None

    def has_table(self, connection, table_name, schema=None, **kw):
        return self.catalog.has_table(table_name, schema)

    def has_multi_table(self, connection, table_names, schema=None, **kw):
        return {(schema, n): self.catalog.has_table(n, schema) for n in table_names}

    def has_index(self, connection, table_name, index_name, schema=None, **kw):
        return self.catalog.has_index(table_name, index_name, schema)

    def has_sequence(self, connection, sequence_name, schema=None, **kw):
        return False


class CatalogConnection(MockConnection):
    """MockConnection that does not force checkfirst=False and feeds every
    executed DDL construct to the catalog (Reject propagates to the caller,
    like a DBAPI error would)"""

    _shared_dialect = None

    def __init__(self, catalog=None):
        self.catalog = catalog if catalog is not None else Catalog()
        # one dialect object per process (per-dialect type/compiler memos are expensive to rebuild);
        # it only ever serves the connection created last
        d = CatalogConnection._shared_dialect
        if d is None:
            d = CatalogConnection._shared_dialect = CatalogDialect()
        d.catalog = self.catalog
        self.constructs = []
        MockConnection.__init__(self, d, self._exec)

    def _exec(self, obj, params=None):
        self.constructs.append(obj)
        self.catalog.apply(obj, self._dialect)

    def _run_ddl_visitor(self, visitorcallable, element, **kwargs):
        self._dialect.catalog = self.catalog
        visitorcallable(dialect=self.dialect, connection=self, **kwargs).traverse_single(element)
