"""sessref1 -- reference model of one Session over single-table mapped objects.

A boring Python record, stepped in lock-step with the real Session:

* ``committed``  rows per table as durable data (what an observer sees)
* ``tx``         stack of transaction scopes (``tx[0]`` outer transaction,
                 ``tx[1:]`` savepoints); each holds the rows visible in that
                 scope plus the names of objects INSERTed / DELETEd / UPDATEd /
                 key-switched *inside* that scope
* per named object: lifecycle state, identity key, "marked for deletion",
  current attribute values and the set of attributes changed since the last
  flush, a ``modified`` flag

Rules and where they are documented (doc/build/orm):

R-add      session_basics.rst "Adding New or Existing Items", session_events.rst
           "Transient to Pending", "Detached to Persistent"
R-delete   session_basics.rst "Deleting"; Session.delete docstring: the object
           stays persistent (member of Session.deleted) until the flush
R-expunge  session_state_management.rst "Expunging"; session_events.rst
           "Pending to Transient", "Persistent to Detached", "Deleted to Detached"
R-flush    session_events.rst "Pending to Persistent", "Persistent to Deleted"
R-commit   session_state_management.rst "Quickie Intro to Object States"
           (Deleted -> Detached on commit), "When to Expire or Refresh"
           (everything expires at commit unless expire_on_commit=False);
           session_events.rst "Deleted to Detached"
R-rollback session_events.rst "Pending to Transient", "Persistent to Transient",
           "Deleted to Persistent"; session_basics.rst "Rolling Back" (objects
           added in the transaction are expunged, deletions reverted, the rest
           is expired)
R-nested   session_transaction.rst "Using SAVEPOINT": begin_nested() flushes
           first; rollback of the savepoint expires what was modified inside
           it, release keeps everything for the enclosing transaction
R-close    session_basics.rst "Closing": expunge_all + release of the
           transaction; session_events.rst "Persistent to Detached",
           SessionEvents.deleted_to_detached docstring (deleted objects are
           detached by close / expunge_all as well)
R-load     session_events.rst "Loaded as Persistent"; session_basics.rst
           identity map: a row already represented in the session is returned
           as that object
R-merge    session_state_management.rst "Merging"

Events are derived from the transitions the model performs: one event per
transition, in order, per object.
"""
from __future__ import annotations

import copy

T, PE, P, D, DT = "transient", "pending", "persistent", "deleted", "detached"

EV = {
    (T, PE): "transient_to_pending",
    (PE, T): "pending_to_transient",
    (PE, P): "pending_to_persistent",
    (P, T): "persistent_to_transient",
    (P, D): "persistent_to_deleted",
    (D, P): "deleted_to_persistent",
    (D, DT): "deleted_to_detached",
    (P, DT): "persistent_to_detached",
    (DT, P): "detached_to_persistent",
}
# the documented machine: event name -> (source, destination)
EDGE_OF_EVENT = {v: k for k, v in EV.items()}
EDGE_OF_EVENT["loaded_as_persistent"] = (None, P)
# transitions that involve no Session and therefore have no event
# (make_transient / make_transient_to_detached docstrings)
SILENT_EDGES = {(DT, T): "make_transient", (T, DT): "make_transient_to_detached"}

TABLE_OF = dict(Plain="plain", Parent="parent", NNode="nnode", FalsyB="falsyb", FalsyL="falsyl")
PK_OF = dict(Plain="id", Parent="id", NNode="code", FalsyB="id", FalsyL="id")
COLS_OF = dict(Plain=("id", "name"), Parent=("id", "name"), NNode=("code", "val"), FalsyB=("id", "name", "flag"), FalsyL=("id", "name", "flag"))
CLASS_OF_TABLE = {v: k for k, v in TABLE_OF.items()}


class MObj:
    __slots__ = ("cls", "state", "key", "marked", "wasdel", "vals", "dirty", "modflag", "held", "stale_pk")

    def __init__(self, cls, vals):
        self.cls = cls
        self.state = T
        self.key = None  # primary key value the session identifies the object by
        self.marked = False  # member of Session.deleted
        self.wasdel = False  # InstanceState.was_deleted
        self.vals = dict(vals)  # current in-memory values (what the application set / would read)
        self.dirty = set()  # attributes changed since the last flush / load
        self.modflag = True  # InstanceState.modified (constructor sets count)
        self.held = True  # the harness holds a strong reference

    def copy(self):
        o = MObj.__new__(MObj)
        o.cls, o.state, o.key, o.marked, o.wasdel = self.cls, self.state, self.key, self.marked, self.wasdel
        o.vals, o.dirty, o.modflag, o.held = dict(self.vals), set(self.dirty), self.modflag, self.held
        return o

    def canon(self):
        return (self.cls, self.state, self.key, self.marked, self.wasdel, tuple(sorted(self.vals.items(), key=repr)), tuple(sorted(self.dirty)), self.modflag, self.held)


class Scope:
    __slots__ = ("rows", "new", "deleted", "dirty", "switch")

    def __init__(self, rows):
        self.rows = rows  # {table: {pk: {col: val}}}
        self.new, self.deleted, self.dirty, self.switch = set(), set(), set(), {}

    def copy(self):
        s = Scope(copy_rows(self.rows))
        s.new, s.deleted, s.dirty, s.switch = set(self.new), set(self.deleted), set(self.dirty), dict(self.switch)
        return s

    def canon(self):
        return (canon_rows(self.rows), tuple(sorted(self.new)), tuple(sorted(self.deleted)), tuple(sorted(self.dirty)), tuple(sorted(self.switch.items())))


def copy_rows(rows):
    return {t: {k: dict(r) for k, r in tr.items()} for t, tr in rows.items()}


def canon_rows(rows):
    return tuple(sorted((t, tuple(sorted((k, tuple(sorted(r.items()))) for k, r in tr.items()))) for t, tr in rows.items() if tr))


class Pred:
    """prediction for one op"""

    __slots__ = ("outcome", "value", "events", "terminal", "note", "undefined")

    def __init__(self):
        self.outcome = "ok"  # "ok" | "error" (SQLAlchemy error, nothing changed) | "flushfail" (flush raised, session needs rollback)
        self.value = None
        self.events = {}  # name -> [event, ...]
        self.terminal = False  # exploration below is outside this model's scope
        self.undefined = False  # the documentation defines no outcome for this op in this state
        self.note = None

    def ev(self, name, src, dst):
        self.events.setdefault(name, []).append(EV[(src, dst)])


class SessRef:
    def __init__(self, cfg):
        self.eoc = cfg.get("eoc", True)
        self.autoflush = cfg.get("autoflush", True)
        self.committed = {}
        for t, rows in (cfg.get("seed") or {}).items():
            cols = COLS_OF[CLASS_OF_TABLE[t]]
            self.committed[t] = {r[0]: dict(zip(cols, r)) for r in rows}
        self.tx = []
        self.objs = {}
        self.order = []
        self.nborn = 0
        self.nsp = 0
        for name, clsname, kw in cfg.get("universe", ()):
            self.objs[name] = MObj(clsname, kw)
            self.order.append(name)

    def copy(self):
        m = type(self).__new__(type(self))
        m.eoc, m.autoflush = self.eoc, self.autoflush
        m.committed = copy_rows(self.committed)
        m.tx = [s.copy() for s in self.tx]
        m.objs = {n: o.copy() for n, o in self.objs.items()}
        m.order = list(self.order)
        m.nborn = self.nborn
        m.nsp = self.nsp
        return m

    def canon(self):
        return (
            canon_rows(self.committed),
            tuple(s.canon() for s in self.tx),
            tuple((n, self.objs[n].canon()) for n in self.order),
            self.nsp,
        )

    # ---------------------------------------------------------- helpers
    def view(self):
        """rows visible to the session's current transaction"""
        return self.tx[-1].rows if self.tx else self.committed

    def autobegin(self):
        if not self.tx:
            self.tx.append(Scope(copy_rows(self.committed)))

    def holder(self, cls, key):
        """name of the object the identity map holds for (cls, key), or None"""
        for n in self.order:
            o = self.objs[n]
            if o.state == P and o.cls == cls and o.key == key and o.held:
                return n
        return None

    def in_session(self, name):
        return self.objs[name].state in (PE, P)

    def is_clean(self):
        for o in self.objs.values():
            if o.state == PE or (o.state == P and (o.marked or o.modflag)):
                return False
        return True

    def row_of(self, o):
        return self.view().get(TABLE_OF[o.cls], {}).get(o.key)

    def expire(self, o):
        """everything loaded is discarded; values are the row's on next access"""
        o.dirty.clear()
        o.modflag = False
        row = self.row_of(o)
        if row is not None:
            o.vals = dict(row)

    def names(self, pred=None):
        return [n for n in self.order if pred is None or pred(self.objs[n])]

    # ---------------------------------------------------------- flush
    def flush(self, pr):
        """returns True on success.  R-flush"""
        if self.is_clean():
            return True
        self.autobegin()
        scope = self.tx[-1]
        rows = scope.rows
        pend = self.names(lambda o: o.state == PE)
        marked = self.names(lambda o: o.state == P and o.marked)
        # plan: a pending object whose identity is held by an object deleted in
        # this same flush replaces its row ("row switch": UPDATE instead of DELETE+INSERT)
        switched = {}
        for n in pend:
            o = self.objs[n]
            pk = o.vals.get(PK_OF[o.cls])
            for m in marked:
                mo = self.objs[m]
                if mo.cls == o.cls and mo.key == pk and m not in switched.values():
                    switched[n] = m
                    break
        fail = False
        seen = set()
        for n in pend:
            o = self.objs[n]
            t = TABLE_OF[o.cls]
            pk = o.vals.get(PK_OF[o.cls])
            if pk is None:
                pr.terminal = True  # autoincrement keys are not modelled
                pr.note = "pending object without primary key"
                return False
            if (o.cls, pk) in seen:
                fail = True
            seen.add((o.cls, pk))
            if pk in rows.get(t, {}) and n not in switched:
                fail = True
            elif n not in switched and self.holder(o.cls, pk) is not None:
                # the identity is claimed by a persistent object that has no row (a
                # detached object re-attached after its row was rolled back, or one
                # fabricated by make_transient_to_detached): nothing is documented
                pr.undefined = True
                return False
        for n in self.names(lambda o: o.state == P and (o.marked or o.modflag)):
            if self.row_of(self.objs[n]) is None:
                # a persistent object without a row (re-attached after its INSERT was
                # rolled back by close()): UPDATE / DELETE / the refresh of its expired
                # attributes cannot succeed; which error surfaces is not documented
                pr.undefined = True
                return False
        if not fail:
            for n in self.names(lambda o: o.state == P and not o.marked and o.dirty):
                o = self.objs[n]
                pkattr = PK_OF[o.cls]
                if pkattr in o.dirty and o.vals[pkattr] != o.key:
                    newpk = o.vals[pkattr]
                    if newpk in rows.get(TABLE_OF[o.cls], {}) or (o.cls, newpk) in seen:
                        fail = True
        if fail:
            pr.outcome = "flushfail"
            pr.terminal = True
            return False
        # UPDATEs of persistent objects (incl. primary key switches)
        for n in self.names(lambda o: o.state == P and not o.marked and o.modflag):
            o = self.objs[n]
            t = TABLE_OF[o.cls]
            pkattr = PK_OF[o.cls]
            if o.dirty:
                row = rows[t].pop(o.key)
                row.update({a: o.vals[a] for a in o.dirty})
                newkey = row[pkattr]
                rows[t][newkey] = row
                if newkey != o.key:
                    scope.switch.setdefault(n, o.key)
                    o.key = newkey
            o.dirty.clear()
            o.modflag = False
            if n not in scope.new:
                scope.dirty.add(n)
        # DELETEs (row-switched ones keep the row for the replacing object)
        for m in marked:
            mo = self.objs[m]
            if m not in switched.values():
                rows.get(TABLE_OF[mo.cls], {}).pop(mo.key, None)
        # INSERTs / row switches
        for n in pend:
            o = self.objs[n]
            t = TABLE_OF[o.cls]
            pk = o.vals[PK_OF[o.cls]]
            rows.setdefault(t, {})[pk] = {c: o.vals.get(c) for c in COLS_OF[o.cls]}
            o.vals = dict(rows[t][pk])
            o.state, o.key = P, pk
            o.dirty.clear()
            o.modflag = False
            scope.new.add(n)
            pr.ev(n, PE, P)
        for m in marked:
            mo = self.objs[m]
            mo.state, mo.marked, mo.wasdel = D, False, True
            mo.dirty.clear()
            mo.modflag = False
            scope.deleted.add(m)
            pr.ev(m, P, D)
        return True

    # ---------------------------------------------------------- scopes
    def rollback_scope(self, pr):
        """discard the innermost scope.  R-rollback / R-nested"""
        scope = self.tx.pop()
        root = not self.tx
        for n in self.order:
            o = self.objs[n]
            if o.state == PE:
                o.state = T
                pr.ev(n, PE, T)
            elif n in scope.new:
                if o.state == P:
                    o.state, o.key, o.marked = T, None, False
                    pr.ev(n, P, T)
                elif o.state == D:
                    # INSERTed and DELETEd inside the discarded scope: the object is
                    # evicted (SessionEvents.deleted_to_detached: "invoked when a
                    # deleted object is evicted from the session") and, having no
                    # row any more, is transient again
                    o.state, o.key, o.wasdel = T, None, False
                    pr.events.setdefault(n, []).append("deleted_to_detached")
                # objects already evicted (detached / transient) are no longer the
                # session's business: no transition, no event
            elif o.state == D and n in scope.deleted:
                if self.holder(o.cls, o.key) is not None:
                    # while this object was deleted another instance was attached under
                    # its identity (make_transient_to_detached + add): two claimants, undocumented
                    pr.undefined = True
                o.state, o.wasdel = P, False
                pr.ev(n, D, P)
            elif o.state == P and o.marked:
                o.marked = False
        for n, oldkey in scope.switch.items():
            o = self.objs[n]
            if o.state in (P, D, DT) or o.key is not None:
                o.key = oldkey
        for n in self.order:
            o = self.objs[n]
            if o.state == P and (root or o.modflag or n in scope.dirty or n in scope.deleted):
                self.expire(o)
        return scope

    def release_scope(self):
        scope = self.tx.pop()
        parent = self.tx[-1]
        parent.rows = scope.rows
        parent.new |= scope.new
        parent.deleted |= scope.deleted
        parent.dirty |= scope.dirty
        for n, k in scope.switch.items():
            parent.switch.setdefault(n, k)

    # ---------------------------------------------------------- ops
    def apply(self, op):
        pr = Pred()
        getattr(self, "op_" + op[0])(pr, *op[1:])
        return pr

    def op_reinit(self, pr, name, values):
        o = self.objs[name]
        for k, v in values:
            o.vals[k] = v
        o.modflag = True

    def op_add(self, pr, name, reinit=None):
        if reinit:
            self.op_reinit(pr, name, reinit)
        o = self.objs[name]
        if o.state == T:
            self.autobegin()
            o.state = PE
            pr.ev(name, T, PE)
        elif o.state == PE:
            pass
        elif o.state == P:
            self.autobegin()
            o.marked = False  # re-adding an object marked for deletion un-marks it
        elif o.state == D:
            pr.outcome = "error"
        elif o.state == DT:
            if o.wasdel:
                pr.outcome = "error"  # "has been deleted; use make_transient()"
                return
            self.autobegin()
            if self.holder(o.cls, o.key) is not None:
                pr.outcome = "error"  # another instance holds the identity
            else:
                o.state = P
                pr.ev(name, DT, P)

    def op_delete(self, pr, name):
        o = self.objs[name]
        if o.state in (T, PE):
            pr.outcome = "error"
        elif o.state == P:
            self.autobegin()
            o.marked = True
        elif o.state == DT:
            self.autobegin()
            if self.holder(o.cls, o.key) is not None:
                pr.outcome = "error"
            else:
                o.state, o.marked = P, True
                pr.ev(name, DT, P)
        else:
            raise AssertionError("delete() of a deleted object is outside the alphabet")

    def op_expunge(self, pr, name):
        o = self.objs[name]
        if o.state == PE:
            o.state = T
            pr.ev(name, PE, T)
        elif o.state == P:
            o.state, o.marked = DT, False
            pr.ev(name, P, DT)
        elif o.state == D:
            o.state = DT
            pr.ev(name, D, DT)
        else:
            pr.outcome = "error"

    def op_set(self, pr, name, attr, value):
        o = self.objs[name]
        if o.state == P:
            self.autobegin()
        o.vals[attr] = value
        o.dirty.add(attr)
        o.modflag = True

    op_set_nf = op_set

    def op_flush(self, pr):
        self.flush(pr)

    def op_commit(self, pr):
        self.autobegin()
        if not self.flush(pr):
            return
        while len(self.tx) > 1:
            self.release_scope()
        root = self.tx.pop()
        self.committed = root.rows
        self.nsp = 0
        for n in self.order:
            o = self.objs[n]
            if o.state == P and self.eoc:
                self.expire(o)
            elif o.state == D:
                # R-commit: "when the session's transaction is committed, the
                # object will move to the detached state"
                o.state = DT
                pr.ev(n, D, DT)

    def op_rollback(self, pr):
        while self.tx:
            self.rollback_scope(pr)
        self.nsp = 0

    def op_begin_nested(self, pr):
        self.autobegin()
        if not self.flush(pr):
            return
        self.tx.append(Scope(copy_rows(self.tx[-1].rows)))
        self.nsp += 1

    op_begin_nested_nf = op_begin_nested  # R-nested: begin_nested() always flushes, no_autoflush or not

    def op_sp_rollback(self, pr):
        assert self.nsp > 0
        self.rollback_scope(pr)
        self.nsp -= 1

    def op_sp_commit(self, pr):
        assert self.nsp > 0
        if not self.flush(pr):
            return
        self.release_scope()
        self.nsp -= 1

    def op_close(self, pr):
        # R-close: expunge_all(), then the transaction is released (rolled back)
        for n in self.order:
            o = self.objs[n]
            if o.state == PE:
                o.state = T
                pr.ev(n, PE, T)
            elif o.state == P:
                o.state, o.marked = DT, False
                pr.ev(n, P, DT)
            elif o.state == D:
                o.state = DT
                pr.ev(n, D, DT)
        self.tx = []
        self.nsp = 0

    def op_make_transient(self, pr, name):
        o = self.objs[name]
        if o.state == PE:
            pr.ev(name, PE, T)
        elif o.state == P:
            pr.ev(name, P, DT)
        elif o.state == D:
            pr.ev(name, D, DT)
        o.state, o.key, o.marked, o.wasdel = T, None, False, False

    def op_mttd(self, pr, name, reinit=None):
        if reinit:
            self.op_reinit(pr, name, reinit)
        o = self.objs[name]
        if o.state != T:
            pr.outcome = "error"
            return
        o.state, o.key = DT, o.vals[PK_OF[o.cls]]
        o.dirty.clear()
        o.modflag = False
        o.wasdel = False

    def _born(self, cls, state, key, vals):
        self.nborn += 1
        name = "b%d" % self.nborn
        o = MObj(cls, vals)
        o.state, o.key = state, key
        o.modflag = state != P
        self.objs[name] = o
        self.order.append(name)
        return name

    def would_bear(self, clsname):
        """number of objects a query for clsname would create now (after autoflush)"""
        m = self.copy()
        pr = Pred()
        if self.autoflush and not m.flush(pr):
            return 0
        t = TABLE_OF[clsname]
        return sum(1 for pk in m.view().get(t, {}) if m.holder(clsname, pk) is None)

    def op_query(self, pr, clsname, opts=None):
        self.autobegin()
        if self.autoflush and not self.flush(pr):
            return
        t = TABLE_OF[clsname]
        res = []
        for pk in sorted(self.view().get(t, {})):
            n = self.holder(clsname, pk)
            if n is None:
                n = self._born(clsname, P, pk, self.view()[t][pk])
                pr.events.setdefault(n, []).append("loaded_as_persistent")
            res.append(n)
        pr.value = res

    def op_get(self, pr, clsname, pk, kw=None):
        n = self.holder(clsname, pk)
        if n is not None and not (kw and dict(kw).get("populate_existing")):
            pr.value = n
            return
        self.autobegin()
        # Session.get() does not autoflush
        row = self.view().get(TABLE_OF[clsname], {}).get(pk)
        if n is not None:
            pr.value = n
            if row is not None:
                o = self.objs[n]
                o.vals = dict(row)
                o.dirty.clear()
                o.modflag = False
            return
        if row is None:
            pr.value = None
            return
        n = self._born(clsname, P, pk, row)
        pr.events.setdefault(n, []).append("loaded_as_persistent")
        pr.value = n

    def op_merge(self, pr, clsname, values):
        self.autobegin()
        if self.autoflush and not self.flush(pr):
            return
        vals = dict(values)
        pk = vals[PK_OF[clsname]]
        n = self.holder(clsname, pk)
        if n is not None and self.row_of(self.objs[n]) is None:
            pr.undefined = True  # target is a persistent object without a row
            return
        if n is None:
            row = self.view().get(TABLE_OF[clsname], {}).get(pk)
            if row is not None:
                n = self._born(clsname, P, pk, row)
                pr.events.setdefault(n, []).append("loaded_as_persistent")
            else:
                n = self._born(clsname, PE, None, vals)
                pr.events.setdefault(n, []).append("transient_to_pending")
                pr.value = n
                return
        o = self.objs[n]
        for k, v in vals.items():
            if o.vals.get(k) != v:
                o.vals[k] = v
                o.dirty.add(k)
                o.modflag = True
        pr.value = n
