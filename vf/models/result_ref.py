"""Reference model of a SQLAlchemy ``Result`` ("plain list model", property C10).

A result is a list of base rows plus

* a cursor index ``pos`` (rows before it are consumed, every row is delivered
  at most once, in order),
* one *seen set* per ``unique()`` call (a filter view created from a result that
  already had ``unique()`` applied shares that set, as documented: "the unique
  filter is applied after all other filters"),
* a closure flag ``open`` / ``hard`` / ``any`` (``hard`` = close() was called:
  every later fetch raises ResourceClosedError; ``any`` = consumed by
  first()/one()/one_or_none()/scalar*(), for which the documentation does not
  uniformly say whether the object is hard closed: a later fetch may either
  raise ``ResourceClosedError`` or report exhaustion; no row may be delivered),
* at most one live Python iterator obtained from the view (``hold``).

*Facets*: ``b`` is the Result itself (after its in-place modifiers unique /
columns / yield_per / tuples), ``v`` is the object the program talks to
(the same object, or the ScalarResult / MappingResult made from it).

Nothing in here imports SQLAlchemy.  Outcomes are *normal forms*:

    ("R", (v0, v1))            a Row with these values
    ("M", ((k0, v0), ...))     a RowMapping with these items in this order
    ("S", v)                   a scalar value (also "no row" for scalar views,
                               where the API itself cannot tell None from absent)
    ("N",)                     None = no row
    ("L", [item, ...])         a sequence of items
    ("P", [[item, ...], ...])  list(partitions(n))
    ("F", [item, ...])         freeze(): rows delivered by each re-hydration
    ("X", "ClassName")         exception
    ("0",)                     no return value (close, hold_new)

``apply`` returns ``(kind, payload)``:

    ("det", new_state, expect)              exactly this outcome
    ("oneof", [(new_state, expect), ...])   any of these (closure left open by the docs)
    ("open", items, states, empty)          fetchmany(None)/partitions(None) without
        yield_per: "backend specific and not well defined" - any non-empty prefix
        items[:k] (k >= 1) is allowed, the state afterwards is states[k];
        if there is nothing left, items == [] and the outcome must be ``empty``
    ("openP", items, new_state)             list(partitions(None)) without yield_per:
        non-empty partitions of unspecified sizes concatenating to items

``apply(..., ignore_seen=True / scalar_row_unique=True)`` are the two deviations
used by the driver to recognise known root causes (F1 / F4); they are never part
of the expected behaviour.
"""
from collections import namedtuple

State = namedtuple("State", "pos closed seens hold yp")
# closed: "open" | "hard" | "any";  seens: tuple of frozensets
# hold: 0 no live iterator, 1 iterator created but not started, 2 iterator delivered a row
# yp: the yield_per in force (most recent yield_per() call, execution option or view prefix); None / < 1 = none

ONE_FAMILY = ("first", "one", "one_or_none", "scalar", "scalar_one", "scalar_one_or_none")
RCE = ("X", "ResourceClosedError")


class Facet:
    __slots__ = ("proj", "kind", "uniq", "is_base", "raw_key")

    def __init__(self, proj, kind, uniq, is_base, raw_key=False):
        self.proj, self.kind, self.uniq, self.is_base, self.raw_key = tuple(proj), kind, uniq, is_base, raw_key

    def copy(self):
        return Facet(self.proj, self.kind, self.uniq, self.is_base, self.raw_key)


def _freeze(v):
    if isinstance(v, list):
        return ("L",) + tuple(_freeze(x) for x in v)
    if isinstance(v, tuple):
        return tuple(_freeze(x) for x in v)
    if isinstance(v, dict):
        return ("D",) + tuple(sorted((k, _freeze(x)) for k, x in v.items()))
    return v


class Config:
    """static part: rows, keys, the two facets, yield_per"""

    def __init__(self, rows, keys, steps, yield_per=None, scalar_source=False):
        self.rows = [tuple(r) for r in rows]
        self.n = len(self.rows)
        self.keys = tuple(keys)
        self.steps = [tuple(s) for s in steps]
        self.yield_per = yield_per
        self.scalar_source = scalar_source
        base = Facet(range(len(self.keys)), "row", None, True)
        cur = base
        nsets = 0
        for s in self.steps:
            name = s[0]
            if name in ("unique", "unique_s"):
                cur.uniq = nsets  # a fresh set replaces whatever was there
                nsets += 1
            elif name == "columns":
                cur.proj = tuple(cur.proj[i] for i in s[1])
            elif name == "yield_per":
                self.yield_per = s[1]
            elif name == "tuples":
                pass
            elif name == "scalars":
                assert cur is base
                cur = Facet((base.proj[s[1]],), "scalar", base.uniq, False, raw_key=scalar_source)
            elif name == "mappings":
                assert cur is base
                cur = Facet(base.proj, "mapping", base.uniq, False)
            else:
                raise AssertionError(name)
        self.base = base
        self.view = cur
        self.nsets = nsets
        self.two_facets = cur is not base
        self.separate_features = False  # set by the driver (quick tier)

    def facet(self, target):
        return self.view if target == "v" else self.base

    def initial(self):
        return State(0, "open", tuple(frozenset() for _ in range(self.nsets)), 0, self.yield_per)

    # ---- projections
    def fields(self, F):
        return tuple(self.keys[i] for i in F.proj)

    def project(self, F, row):
        return tuple(row[i] for i in F.proj)

    def item(self, F, p):
        if F.kind == "row":
            return ("R", p)
        if F.kind == "mapping":
            return ("M", tuple(zip(self.fields(F), p)))
        return ("S", p[0])

    def none_form(self, F):
        return ("S", None) if F.kind == "scalar" else ("N",)

    def key(self, F, p):
        return ("raw" if F.raw_key else "row", _freeze(p))


def canon(cfg, st):
    """canonical, future-determining part of a model state"""
    if st.pos >= cfg.n or st.closed != "open":
        # nothing left to deliver: seen sets can no longer be observed
        # ... and neither can the batch size
        return (cfg.n, st.closed, (), st.hold if st.closed == "open" else 0, None)
    return (st.pos, st.closed, tuple(tuple(sorted(s, key=repr)) for s in st.seens), st.hold, st.yp)


def _scan(cfg, st, F, ignore_seen=False, uniq_proj=None):
    """remaining deliverable rows of facet F, in order: (index, projected, key)"""
    uniq = F.uniq is not None
    seen = st.seens[F.uniq] if (uniq and not ignore_seen) else frozenset()
    local = set()
    for i in range(st.pos, cfg.n):
        p = cfg.project(F, cfg.rows[i])
        k = None
        if uniq:
            k = cfg.key(F, p if uniq_proj is None else tuple(cfg.rows[i][j] for j in uniq_proj))
            if k in seen or k in local:
                continue
            local.add(k)
        yield i, p, k


def _consume(cfg, st, F, found, exhausted):
    """state after delivering ``found`` [(i, p, k)...]; exhausted: the scan ran off the end"""
    pos = cfg.n if exhausted or not found else found[-1][0] + 1
    if exhausted:
        pos = cfg.n
    seens = st.seens
    if F.uniq is not None and found:
        s = list(seens)
        s[F.uniq] = s[F.uniq] | frozenset(k for _, _, k in found)
        seens = tuple(s)
    return st._replace(pos=pos, seens=seens)


def _take(cfg, st, F, k):
    found = []
    for rec in _scan(cfg, st, F):
        found.append(rec)
        if len(found) == k:
            return found, False
    return found, True


def _take_all(cfg, st, F):
    return list(_scan(cfg, st, F))


def yp_in_force(st):
    return st.yp is not None and st.yp >= 1


def enabled(cfg, st, alphabet):
    """filter a static alphabet [(target, name, arg)] by what the current state allows"""
    out = []
    pristine = st.pos == 0 and st.closed == "open" and not st.hold and not any(st.seens)
    for op in alphabet:
        t, name, arg = op
        if name == "freeze" and not pristine:
            # documented precondition: "must be called on the result when it has been unconsumed"
            continue
        if name == "hold_new" and (st.hold or st.closed != "open"):
            continue
        if name == "yield_per":
            # a no-op once nothing is left; quick tier: explored separately from a live iterator
            if st.closed != "open" or st.pos >= cfg.n or (cfg.separate_features and st.hold):
                continue
        if name == "hold_new" and cfg.separate_features and st.yp != cfg.yield_per:
            continue
        if arg is None and name in ("fetchmany", "part1", "partall") and cfg.two_facets and not yp_in_force(st):
            # size-less batch without yield_per through a unique() facet while a second facet exists:
            # how many trailing duplicates were consumed is unspecified -> not enumerated
            if cfg.facet(t).uniq is not None:
                continue
        if name == "hold_next" and (not st.hold or st.closed != "open"):
            continue
        out.append(op)
    return out


def apply(cfg, st, target, name, arg, ignore_seen=False, scalar_row_unique=False):
    F = cfg.facet(target)
    n = cfg.n

    if name == "close":
        return ("det", st._replace(closed="hard", pos=n), ("0",))
    if name == "hold_new":
        return ("det", st._replace(hold=1), ("0",))
    if name == "yield_per":
        # documented: rows are buffered / partitioned in batches of this size from now on; the rows
        # themselves are unchanged.  "If set to a value below 1, fetches all rows for the next buffer"
        return ("det", st._replace(yp=arg), ("0",))

    # ---------------- size resolution for the "many" ops
    many = name in ("fetchmany", "part1", "partall")
    size = arg
    if many and size is None:
        size = st.yp if yp_in_force(st) else None  # None -> open

    def empty_for(nm):
        if nm in ("next", "iter1", "hold_next", "part1"):
            return ("X", "StopIteration")
        if nm == "fetchone":
            return cfg.none_form(F)
        if nm in ("fetchmany", "fetchall", "all", "list"):
            return ("L", [])
        if nm == "partall":
            return ("P", [])
        if nm in ("first", "one_or_none"):
            return cfg.none_form(F)
        if nm in ("scalar", "scalar_one_or_none"):
            return ("S", None)
        if nm in ("one", "scalar_one"):
            return ("X", "NoResultFound")
        if nm == "freeze":
            return ("F", [])
        raise AssertionError(nm)

    # ---------------- closed results
    if st.closed == "hard":
        return ("det", st, RCE)
    if st.closed == "any":
        return ("oneof", [(st, RCE), (st, empty_for(name))])

    # ---------------- single row
    if name in ("next", "iter1", "fetchone", "hold_next"):
        found, exhausted = _take(cfg, st, F, 1)
        ns = _consume(cfg, st, F, found, exhausted)
        if found:
            if name == "hold_next":
                ns = ns._replace(hold=2)
            return ("det", ns, cfg.item(F, found[0][1]))
        if name == "hold_next":
            ns = ns._replace(hold=0)
        return ("det", ns, empty_for(name))

    # ---------------- everything that is left
    if name in ("fetchall", "all", "list", "freeze"):
        found = _take_all(cfg, st, F)
        ns = _consume(cfg, st, F, found, True)
        items = [cfg.item(F, p) for _, p, _ in found]
        if name == "freeze" and F.uniq is not None:
            # "TODO: are we freezing the result with or without uniqueness applied?" (result.py):
            # left open by the documentation, both are accepted
            raw = [cfg.item(F, cfg.project(F, r)) for r in cfg.rows[st.pos:]]
            return ("oneof", [(ns, ("F", items)), (ns, ("F", raw))])
        return ("det", ns, ("F" if name == "freeze" else "L", items))

    # ---------------- n rows
    if many and size is not None:
        if name == "partall":
            parts = []
            cur = st
            while True:
                found, exhausted = _take(cfg, cur, F, size)
                cur = _consume(cfg, cur, F, found, exhausted)
                if not found:
                    break
                parts.append([cfg.item(F, p) for _, p, _ in found])
                if exhausted:
                    break
            return ("det", cur._replace(pos=n), ("P", parts))
        found, exhausted = _take(cfg, st, F, size)
        ns = _consume(cfg, st, F, found, exhausted)
        if not found and name == "part1":
            return ("det", ns, ("X", "StopIteration"))
        return ("det", ns, ("L", [cfg.item(F, p) for _, p, _ in found]))

    if many:
        # size None and no yield_per: any non-empty prefix
        found = _take_all(cfg, st, F)
        items = [cfg.item(F, p) for _, p, _ in found]
        if name == "partall":
            # partition sizes unspecified; all remaining rows, no empty partition
            return ("openP", items, _consume(cfg, st, F, found, True))
        if not found:
            ns = _consume(cfg, st, F, [], True)
            return ("open", [], [ns], empty_for(name))
        states = [None]
        for k in range(1, len(found) + 1):
            states.append(_consume(cfg, st, F, found[:k], k == len(found) and found[-1][0] == n - 1))
        return ("open", items, states, None)

    # ---------------- first / one / scalar family
    if name in ONE_FAMILY:
        uniq_proj = None
        if name in ("scalar_one", "scalar_one_or_none") and F.uniq is not None and not scalar_row_unique:
            # documented: "equivalent to calling Result.scalars() and then ScalarResult.one()";
            # unique() "is applied to only the column or columns returned"
            uniq_proj = (F.proj[0],)
        found = list(_scan(cfg, st, F, ignore_seen=ignore_seen, uniq_proj=uniq_proj))
        # first(): "Closes the result set and discards remaining rows"; scalar(): "the object is
        # fully closed"; one()/...: not stated.  Whether that is a hard close is not uniform in the
        # documentation (an already exhausted CursorResult stays soft closed), so: "any"
        ns = st._replace(pos=n, closed="any")
        if name in ("first", "scalar"):
            if not found:
                return ("det", ns, empty_for(name))
            p = found[0][1]
            return ("det", ns, cfg.item(F, p) if name == "first" else ("S", p[0]))
        if not found:
            return ("det", ns, empty_for(name))
        if len(found) > 1:
            return ("det", ns, ("X", "MultipleResultsFound"))
        p = found[0][1]
        return ("det", ns, ("S", p[0]) if name.startswith("scalar") else cfg.item(F, p))

    raise AssertionError(name)


def match(cfg, outcome, obs):
    """-> new_state or None.  obs: normal form observed on the implementation"""
    kind = outcome[0]
    if kind == "det":
        return outcome[1] if obs == outcome[2] else None
    if kind == "oneof":
        for ns, exp in outcome[1]:
            if obs == exp:
                return ns
        return None
    if kind == "open":
        _, items, states, empty = outcome
        if not items:
            return states[0] if obs == empty else None
        if obs[0] != "L" or not isinstance(obs[1], list):
            return None
        k = len(obs[1])
        if k < 1 or k > len(items) or obs[1] != items[:k]:
            return None
        return states[k]
    if kind == "openP":
        _, items, ns = outcome
        if obs[0] != "P" or any(not part for part in obs[1]):
            return None
        flat = [x for part in obs[1] for x in part]
        return ns if flat == items else None
    raise AssertionError(kind)


def describe(outcome):
    kind = outcome[0]
    if kind == "det":
        return repr(outcome[2])
    if kind == "oneof":
        return " or ".join(repr(e) for _, e in outcome[1])
    if kind == "openP":
        return "non-empty partitions concatenating to %r" % (outcome[1],)
    _, items, states, empty = outcome
    if not items:
        return repr(empty)
    return "a non-empty prefix of %r" % (items,)
