"""Force the .py source of the seven dual (Cython / pure python) modules.

/repo ships pre-built ``*_cy.*.so`` files that cannot be rebuilt here (no
Cython).  The .so wins at import, so edits to ``*_cy.py`` would be invisible.
Every check therefore imports SQLAlchemy through this finder, unless
VF_COMPILED=1 is set (used only by the compiled-vs-pure differential runs).
"""
import importlib.abc
import importlib.util
import os
import sys

CY = {
    "sqlalchemy.util._collections_cy",
    "sqlalchemy.util._immutabledict_cy",
    "sqlalchemy.engine._processors_cy",
    "sqlalchemy.engine._result_cy",
    "sqlalchemy.engine._row_cy",
    "sqlalchemy.engine._util_cy",
    "sqlalchemy.sql._util_cy",
}


class _Finder(importlib.abc.MetaPathFinder):
    def find_spec(self, name, path, target=None):
        if name in CY and path:
            for p in path:
                f = os.path.join(p, name.rsplit(".", 1)[1] + ".py")
                if os.path.exists(f):
                    return importlib.util.spec_from_file_location(name, f)
        return None


def install():
    # VF_REPO: run the checks against another checkout (scratch worktree with a
    # seeded change); default is /repo through the editable install.
    alt = os.environ.get("VF_REPO")
    if alt:
        lib = os.path.join(alt, "lib")
        if not os.path.isdir(os.path.join(lib, "sqlalchemy")):
            raise RuntimeError("VF_REPO=%s has no lib/sqlalchemy" % alt)
        if lib not in sys.path:
            sys.path.insert(0, lib)
    if os.environ.get("VF_COMPILED") == "1":
        return False
    if "sqlalchemy" in sys.modules:
        raise RuntimeError("purepy.install() must run before importing sqlalchemy")
    if not any(isinstance(f, _Finder) for f in sys.meta_path):
        sys.meta_path.insert(0, _Finder())
    return True
