"""A thin proxy DBAPI module around ``sqlite3`` for *environment-answer*
enumeration (engine F, answer flavour).

``Proxy()`` is a module-shaped object that is handed to
``create_engine("sqlite://", module=proxy, ...)``.  Every attribute the
pysqlite dialect asks of the DBAPI module is forwarded to the real ``sqlite3``
module; ``connect()`` returns a wrapped connection whose cursors

* log every ``execute`` / ``executemany`` (statement, parameters) into
  ``proxy.log`` (a list of ``(kind, sql, params)`` tuples), and
* for the statements selected by ``proxy.select`` (a predicate on the SQL
  text, default: the text contains ``RETURNING``) fetch the complete result
  from the real cursor immediately, apply the permutation that the current
  *answer plan* assigns to this statement, and serve ``fetchone`` /
  ``fetchmany`` / ``fetchall`` from that buffer.

An answer plan is ``{k: permutation}``: the k-th selected statement (counted
from 0 since the last ``proxy.reset()``) returns its rows re-ordered so that
``answer[i] = real[permutation[i]]``; statements absent from the plan answer
in the order SQLite produced.  ``proxy.batches`` records, per selected
statement, how many rows it really returned - the explorer runs a case once
with the empty plan to learn these sizes and then enumerates the plans.

A server without an ordering guarantee for ``INSERT .. RETURNING`` (every
backend, per their documentation) may legitimately give any of these answers;
SQLite itself happens to answer in VALUES order, which is why the sentinel
sort is invisible without this proxy.

``proxy.rewrite`` is an optional ``sql -> sql`` hook applied before the
statement reaches SQLite (used to translate the one piece of syntax of the
"INSERT .. SELECT .. FROM (VALUES ..) AS imp_sen(p0, .., sen_counter)" form
that SQLite lacks, the column list on a subquery alias).

Nothing here knows about SQLAlchemy; nothing in SQLAlchemy is patched.
"""
import re
import sqlite3

_FORWARD_SET = ("isolation_level", "autocommit", "row_factory", "text_factory")


class _Cursor:
    def __init__(self, proxy, real):
        self.__dict__["_p"] = proxy
        self.__dict__["_c"] = real
        self.__dict__["_buf"] = None

    # -- execution
    def execute(self, sql, params=()):
        p = self._p
        if p.rewrite is not None:
            sql = p.rewrite(sql)
        p.log.append(("execute", sql, params))
        self.__dict__["_buf"] = None
        self._c.execute(sql, params)
        if self._c.description is not None and p.select(sql):
            rows = self._c.fetchall()
            k = len(p.batches)
            p.batches.append(len(rows))
            perm = p.plan.get(k)
            if perm is not None:
                if sorted(perm) != list(range(len(rows))):
                    raise AssertionError("answer plan %r does not fit %d rows of statement %d" % (perm, len(rows), k))
                rows = [rows[i] for i in perm]
                p.applied.append(k)
            self.__dict__["_buf"] = list(rows)
        return self

    def executemany(self, sql, seq):
        p = self._p
        if p.rewrite is not None:
            sql = p.rewrite(sql)
        seq = list(seq)
        p.log.append(("executemany", sql, seq))
        self.__dict__["_buf"] = None
        self._c.executemany(sql, seq)
        return self

    # -- fetching
    def fetchall(self):
        if self._buf is None:
            return self._c.fetchall()
        rows, self.__dict__["_buf"] = self._buf, []
        return rows

    def fetchone(self):
        if self._buf is None:
            return self._c.fetchone()
        return self._buf.pop(0) if self._buf else None

    def fetchmany(self, size=None):
        if self._buf is None:
            return self._c.fetchmany(size) if size is not None else self._c.fetchmany()
        if size is None:
            size = self._c.arraysize
        rows = self._buf[:size]
        del self._buf[:size]
        return rows

    def __iter__(self):
        while True:
            r = self.fetchone()
            if r is None:
                return
            yield r

    def close(self):
        self.__dict__["_buf"] = None
        return self._c.close()

    def __getattr__(self, name):
        return getattr(self._c, name)

    def __setattr__(self, name, value):
        setattr(self._c, name, value)


class _Connection:
    def __init__(self, proxy, real):
        self.__dict__["_p"] = proxy
        self.__dict__["_r"] = real

    def cursor(self, *a, **kw):
        return _Cursor(self._p, self._r.cursor(*a, **kw))

    def execute(self, sql, params=()):
        return self.cursor().execute(sql, params)

    def executemany(self, sql, seq):
        return self.cursor().executemany(sql, seq)

    def commit(self):
        self._p.log.append(("commit", None, None))
        return self._r.commit()

    def rollback(self):
        self._p.log.append(("rollback", None, None))
        return self._r.rollback()

    def close(self):
        return self._r.close()

    def __getattr__(self, name):
        return getattr(self._r, name)

    def __setattr__(self, name, value):
        setattr(self._r, name, value)


def _default_select(sql):
    return "RETURNING" in sql


class Proxy:
    """module-shaped; one instance per engine"""

    def __init__(self, select=None, rewrite=None):
        self.real = sqlite3
        self.select = select or _default_select
        self.rewrite = rewrite
        self.reset()

    def reset(self, plan=None):
        self.plan = dict(plan or {})
        self.log = []
        self.batches = []
        self.applied = []

    def connect(self, *a, **kw):
        return _Connection(self, sqlite3.connect(*a, **kw))

    def statements(self, kind=None):
        return [(k, s, p) for k, s, p in self.log if s is not None and (kind is None or k == kind)]

    def __getattr__(self, name):
        return getattr(sqlite3, name)


# ---------------------------------------------------------------- rewrite hook

_IMP_SEN = re.compile(r"\(VALUES (.*)\) AS imp_sen\(([^()]*)\)", re.S)


def rewrite_values_alias(sql):
    """``(VALUES (..), (..)) AS imp_sen(p0, p1, sen_counter)`` ->
    ``(SELECT column1 AS p0, column2 AS p1, column3 AS sen_counter FROM (VALUES (..), (..))) AS imp_sen``

    SQLite names the columns of a VALUES table column1..columnN and has no
    column-list syntax on a subquery alias; everything else of the statement is
    passed through untouched."""
    m = _IMP_SEN.search(sql)
    if not m:
        return sql
    names = [n.strip() for n in m.group(2).split(",")]
    sel = ", ".join("column%d AS %s" % (i + 1, n) for i, n in enumerate(names))
    return sql[: m.start()] + "(SELECT %s FROM (VALUES %s)) AS imp_sen" % (sel, m.group(1)) + sql[m.end():]
