"""Engine F: proxy DBAPI with a call ledger and fault plans.

Nothing in SQLAlchemy is patched.  The proxy is an ordinary object that looks
like a PEP-249 module and is handed to SQLAlchemy through public hooks::

    led = Ledger(plan={7: "disc"})                 # 8th driver call raises a disconnect-class error
    dbapi = LedgerDBAPI(led)                       # wraps the real ``sqlite3`` module
    eng = create_engine("sqlite:////dev/shm/x.db", module=dbapi, connect_args={"autocommit": False})

or, without any database underneath (pool-only harnesses)::

    fake = FakeDBAPI(led)                          # connections are ledger entries only
    p = QueuePool(fake.connect, pool_size=1, max_overflow=1,
                  dialect=fake.dialect(), pre_ping=True)

API (stable; other drivers import it)
-------------------------------------
``Ledger(plan=None)``
    * ``plan``: dict ``call index -> fault``.  The *call index* counts every
      driver call made through the proxy while ``led.enabled`` is true, in
      program order, starting at 0.  ``fault`` is one of

        ``"disc"``  raise ``sqlite3.ProgrammingError("Cannot operate on a closed database.")``
                    -- the real ``SQLiteDialect_pysqlite.is_disconnect`` classifies it as a
                    disconnect.  The underlying connection *is really closed first* (the
                    server went away: its uncommitted work is gone and every later call on
                    that connection fails natively with the same error).
        ``"err"``   raise ``sqlite3.OperationalError("boom")`` (not a disconnect); the call is
                    not performed.  Exception: a faulted ``close`` still closes the
                    underlying connection (so no lock survives), then raises.
        ``"exit"``  raise ``KeyboardInterrupt`` (BaseException path); the call is not performed.
        ``("perm", [i0, i1, ...])``  only for ``fetchall``/``fetchmany``: the call succeeds and
                    the returned rows are permuted (row order answers of C12).
        ``("raise", exc_instance)``  raise exactly that object.
    * ``led.log``: list of ``Call(idx, cid, kind, info, fault, dead)`` in order.  ``kind`` is one
      of ``connect cursor execute executemany fetchone fetchmany fetchall commit rollback close
      cursor_close setup``.  ``dead`` = the connection had already been killed by a ``disc``
      fault (such calls fail natively; planning a fault on them is pointless).
    * ``led.conns``: ``cid -> ConnInfo(cid, open, close_attempts, dead, opened_at, failed_connect)``.
      ``open`` means ``connect`` succeeded and ``close()`` has not been *attempted* yet.
    * ``led.n``: number of counted calls so far; ``led.fired``: indexes whose fault fired.
    * ``led.enabled``: set False (or use ``with led.paused():``) around harness set-up /
      observation so those calls are neither counted nor faulted.
    * ``led.outage(True)`` -- "the database server is down": every open proxy connection dies at once (as a ``disc``
      fault would kill it) and, until ``led.outage(False)``, every ``connect()`` fails with the disconnect-class
      error (logged with ``fault="disc"`` so that drivers see it like an injected one).  ``led.down`` tells.
    * ``led.open_ids()``, ``led.cid_of(obj)`` (accepts proxy connections, pool fairies,
      ``Connection`` objects), ``led.close_all()`` (harness clean-up: really closes everything).

``explore_plans(run, kinds=("disc","err"), max_faults=1, faultable=None)``
    Stateless enumeration of *all* fault plans with <= ``max_faults`` faults.  ``run(plan)``
    must execute the program on fresh objects with ``Ledger(plan)`` and return that ledger.
    The fault-free run comes first (it teaches the number of calls n); a plan with k faults is
    extended only at call indexes *after* its last fault, read off the log of the run that
    executed it -- so a fault that changes the rest of the execution is handled exactly, and
    no plan is executed twice.  Yields ``(plan, ledger)`` simplest first.
    ``faultable(call) -> bool | iterable of kinds`` restricts positions / kinds.

``LedgerDBAPI(ledger, real=sqlite3, paramstyle=None, translate=None)``
    Module proxy; every attribute not overridden is the real module's.  ``paramstyle`` /
    ``translate(statement, parameters) -> (statement, parameters)`` let a driver pose as a
    DBAPI of another paramstyle (``translate_format`` and ``translate_pyformat`` are supplied)
    so that ``format`` / ``pyformat`` statements are really executed (C04).

``FakeDBAPI(ledger)``
    No database: ``connect()`` returns ``FakeConnection`` objects whose
    ``cursor/execute/fetch*/commit/rollback/close`` only write the ledger (``SELECT 1`` returns
    one row ``(1,)``).  Uses sqlite3's exception classes, so ``FakeDBAPI.dialect()`` -- a real
    ``SQLiteDialect_pysqlite`` bound to the fake module -- classifies errors like the real thing
    and gives the pool a working ``pre_ping``.  A fake connection records ``in_transaction``
    (set by execute, cleared by commit/rollback) for reset checks.

``VirtualClock(start=1000.0, step=1.0)`` / ``pool_clock(clock)``
    ``pool_clock`` rebinds the module-level name ``time`` *as seen by*
    ``sqlalchemy.pool.base`` to the clock for the duration of a ``with`` block (harness-side
    rebinding, no source change).  Each ``time()`` read advances by ``step`` (the pool's
    strict ``>`` comparisons assume measurable time passes); ``clock.advance(dt)`` jumps.
"""
from __future__ import annotations

import contextlib
import sqlite3
from collections import deque

DISCONNECT_MSG = "Cannot operate on a closed database."


class Call:
    __slots__ = ("idx", "cid", "kind", "info", "fault", "dead")

    def __init__(self, idx, cid, kind, info, fault, dead):
        self.idx, self.cid, self.kind, self.info, self.fault, self.dead = idx, cid, kind, info, fault, dead

    def __repr__(self):
        return "#%d c%s %s%s%s" % (
            self.idx,
            self.cid,
            self.kind,
            "(%s)" % (self.info,) if self.info else "",
            " !%s" % (self.fault,) if self.fault else "",
        )

    def brief(self):
        return [self.idx, self.cid, self.kind, self.info, _fault_name(self.fault)]


def _fault_name(f):
    if f is None:
        return None
    if isinstance(f, str):
        return f
    return str(f[0])


class ConnInfo:
    __slots__ = ("cid", "open", "close_attempts", "dead", "opened_at", "failed_connect", "in_transaction", "obj")

    def __init__(self, cid, opened_at):
        self.cid = cid
        self.open = False
        self.close_attempts = 0
        self.dead = False
        self.opened_at = opened_at
        self.failed_connect = False
        self.in_transaction = False  # maintained by FakeConnection only
        self.obj = None

    def __repr__(self):
        return "c%d(%s%s closes=%d)" % (self.cid, "open" if self.open else "closed", " dead" if self.dead else "", self.close_attempts)


class Ledger:
    def __init__(self, plan=None):
        self.plan = dict(plan or {})
        self.n = 0
        self.log = []
        self.conns = {}
        self.fired = []
        self.enabled = True
        self.down = False
        self._next_cid = 0

    def outage(self, on):
        self.down = bool(on)
        if on:
            for ci in self.conns.values():
                if ci.open and not ci.dead and ci.obj is not None:
                    ci.obj._vf_kill()

    # ---- bookkeeping
    def new_conn(self):
        cid = self._next_cid
        self._next_cid += 1
        ci = ConnInfo(cid, self.n)
        self.conns[cid] = ci
        return ci

    @contextlib.contextmanager
    def paused(self):
        old = self.enabled
        self.enabled = False
        try:
            yield self
        finally:
            self.enabled = old

    def call(self, ci, kind, info=None):
        """count one driver call; returns the planned fault (or None).  The caller
        performs the fault with ``fire`` so that it can order side effects."""
        if not self.enabled:
            return None
        idx = self.n
        self.n += 1
        fault = self.plan.get(idx)
        if fault is None and self.down and kind == "connect":
            fault = "disc"
        if fault is not None and not isinstance(fault, str):
            fault = tuple(fault) if isinstance(fault, list) else fault
        self.log.append(Call(idx, None if ci is None else ci.cid, kind, info, fault, bool(ci is not None and ci.dead)))
        if fault is not None:
            self.fired.append(idx)
        return fault

    def open_ids(self):
        return sorted(c.cid for c in self.conns.values() if c.open)

    def cid_of(self, obj):
        """ledger id of a proxy connection, pool fairy / record or Connection (None if unknown)"""
        for _ in range(4):
            if obj is None:
                return None
            if isinstance(obj, (LedgerConnection, FakeConnection)):
                return obj._vf_cid
            d = getattr(obj, "__dict__", {})
            if "_dbapi_connection" in d:  # engine.Connection -> fairy
                obj = d["_dbapi_connection"]
                continue
            try:  # fairy / record -> DBAPI connection (slot; bypasses fairy.__getattr__)
                obj = object.__getattribute__(obj, "dbapi_connection")
            except AttributeError:
                return None
        return None

    def close_all(self):
        with self.paused():
            for ci in self.conns.values():
                o = ci.obj
                if o is not None:
                    try:
                        o._vf_really_close()
                    except Exception:
                        pass

    def brief_log(self, limit=60):
        return [c.brief() for c in self.log[:limit]]


def make_exc(fault):
    if fault == "disc":
        return sqlite3.ProgrammingError(DISCONNECT_MSG)
    if fault == "err":
        return sqlite3.OperationalError("boom")
    if fault == "exit":
        return KeyboardInterrupt("injected")
    if isinstance(fault, tuple) and fault[0] == "raise":
        return fault[1]
    raise AssertionError("unknown fault %r" % (fault,))


def normalize_plan(plan):
    """JSON round trip: keys back to int, list faults to tuples"""
    out = {}
    for k, v in (plan or {}).items():
        out[int(k)] = tuple(v) if isinstance(v, list) else v
    return out


# ------------------------------------------------------------- plan explorer


def explore_plans(run, kinds=("disc", "err"), max_faults=1, faultable=None):
    queue = deque([({}, -1)])
    while queue:
        plan, last = queue.popleft()
        led = run(dict(plan))
        yield plan, led
        if len(plan) >= max_faults:
            continue
        for c in led.log:
            if c.idx <= last or c.dead or c.fault is not None:
                continue
            ks = kinds
            if faultable is not None:
                r = faultable(c)
                if r is False or r is None:
                    continue
                if r is not True:
                    ks = tuple(r)
            for k in ks:
                p = dict(plan)
                p[c.idx] = k
                queue.append((p, c.idx))


# ------------------------------------------------------------- real sqlite3 proxy


def translate_format(statement, parameters):
    """'format' paramstyle (%s, %% escapes) -> qmark"""
    return _translate(statement, named=False), parameters


def translate_pyformat(statement, parameters):
    """'pyformat' paramstyle (%(name)s, %% escapes) -> named (:name)"""
    return _translate(statement, named=True), parameters


def _translate(s, named):
    out = []
    i, n = 0, len(s)
    while i < n:
        ch = s[i]
        if ch in "'\"`":
            j = i + 1
            while j < n:
                if s[j] == ch:
                    if j + 1 < n and s[j + 1] == ch:
                        j += 2
                        continue
                    break
                j += 1
            out.append(s[i : j + 1].replace("%%", "%"))
            i = j + 1
        elif ch == "%":
            if s.startswith("%%", i):
                out.append("%")
                i += 2
            elif not named and s.startswith("%s", i):
                out.append("?")
                i += 2
            elif named and s.startswith("%(", i):
                j = s.index(")s", i)
                out.append(":" + s[i + 2 : j])
                i = j + 2
            else:
                out.append(ch)
                i += 1
        else:
            out.append(ch)
            i += 1
    return "".join(out)


class LedgerDBAPI:
    """module-shaped proxy over ``sqlite3`` (or another real PEP-249 module)"""

    def __init__(self, ledger, real=sqlite3, paramstyle=None, translate=None):
        self._vf_ledger = ledger
        self._vf_real = real
        self._vf_translate = translate
        if paramstyle is not None:
            self.paramstyle = paramstyle

    def __getattr__(self, name):
        return getattr(self._vf_real, name)

    def connect(self, *args, **kw):
        led = self._vf_ledger
        ci = led.new_conn()
        fault = led.call(ci, "connect")
        if fault is not None:
            ci.failed_connect = True
            raise make_exc(fault)
        real = self._vf_real.connect(*args, **kw)
        ci.open = True
        conn = LedgerConnection(led, ci, real, self._vf_translate)
        ci.obj = conn
        return conn


_CONN_SET = ("isolation_level", "autocommit", "row_factory", "text_factory")


class LedgerConnection:
    def __init__(self, ledger, ci, real, translate=None):
        d = self.__dict__
        d["_vf_ledger"] = ledger
        d["_vf_ci"] = ci
        d["_vf_cid"] = ci.cid
        d["_vf_real"] = real
        d["_vf_translate"] = translate
        d["_vf_cursors"] = []

    def __repr__(self):
        return "<ledger conn c%d>" % self._vf_cid

    def _vf_close_real(self):
        # sqlite3 defers the real close (and keeps its locks) while a statement is still active:
        # reset every cursor first so that "the server went away" is immediate
        for cur in self._vf_cursors:
            try:
                cur.close()
            except Exception:
                pass
        del self._vf_cursors[:]
        self._vf_real.close()

    def __getattr__(self, name):
        return getattr(self._vf_real, name)

    def __setattr__(self, name, value):
        if name in _CONN_SET:
            setattr(self._vf_real, name, value)
        else:
            self.__dict__[name] = value

    def _vf_kill(self):
        ci = self._vf_ci
        ci.dead = True
        try:
            self._vf_close_real()
        except Exception:
            pass

    def _vf_really_close(self):
        self._vf_close_real()

    def _vf_do(self, kind, info, fn, *a):
        fault = self._vf_ledger.call(self._vf_ci, kind, info)
        if fault is not None and (isinstance(fault, str) or fault[0] == "raise"):
            if fault == "disc":
                self._vf_kill()
            raise make_exc(fault)
        return fn(*a)

    def cursor(self, *a, **kw):
        cur = self._vf_do("cursor", None, self._vf_real.cursor, *a)
        if len(self._vf_cursors) > 64:
            del self._vf_cursors[:32]
        self._vf_cursors.append(cur)
        return LedgerCursor(self, cur)

    def commit(self):
        return self._vf_do("commit", None, self._vf_real.commit)

    def rollback(self):
        return self._vf_do("rollback", None, self._vf_real.rollback)

    def close(self):
        ci = self._vf_ci
        led = self._vf_ledger
        fault = led.call(ci, "close")
        if led.enabled:
            ci.close_attempts += 1
            ci.open = False
        self._vf_close_real()
        if fault is not None:
            if fault == "disc":
                ci.dead = True
            raise make_exc(fault)

    def execute(self, statement, *a):
        # sqlite3 shortcut: counted as cursor + execute like the long form
        cur = self.cursor()
        return cur.execute(statement, *a)

    def create_function(self, *a, **kw):
        return self._vf_real.create_function(*a, **kw)


class LedgerCursor:
    def __init__(self, conn, real):
        d = self.__dict__
        d["_vf_conn"] = conn
        d["_vf_real"] = real

    def __getattr__(self, name):
        return getattr(self._vf_real, name)

    def __setattr__(self, name, value):
        if name == "arraysize":
            self._vf_real.arraysize = value
        else:
            self.__dict__[name] = value

    def __iter__(self):
        return iter(self.fetchall())

    def _tr(self, statement, parameters):
        t = self._vf_conn._vf_translate
        if t is not None:
            return t(statement, parameters)
        return statement, parameters

    def execute(self, statement, parameters=()):
        c = self._vf_conn
        statement, parameters = self._tr(statement, parameters)
        c._vf_do("execute", _stmt_head(statement), self._vf_real.execute, statement, parameters)
        return self

    def executemany(self, statement, parameters):
        c = self._vf_conn
        statement, parameters = self._tr(statement, parameters)
        c._vf_do("executemany", _stmt_head(statement), self._vf_real.executemany, statement, parameters)
        return self

    def _fetch(self, kind, fn, *a):
        c = self._vf_conn
        fault = c._vf_ledger.call(c._vf_ci, kind)
        if fault is not None and not isinstance(fault, str) and fault[0] == "perm":
            rows = fn(*a)
            perm = fault[1]
            if rows is not None and len(perm) == len(rows):
                rows = [rows[i] for i in perm]
            return rows
        if fault is not None:
            if fault == "disc":
                c._vf_kill()
            raise make_exc(fault)
        return fn(*a)

    def fetchone(self):
        return self._fetch("fetchone", self._vf_real.fetchone)

    def fetchmany(self, *a):
        return self._fetch("fetchmany", self._vf_real.fetchmany, *a)

    def fetchall(self):
        return self._fetch("fetchall", self._vf_real.fetchall)

    def close(self):
        c = self._vf_conn
        return c._vf_do("cursor_close", None, self._vf_real.close)


def _stmt_head(statement):
    s = " ".join(str(statement).split())
    return s[:40]


# ------------------------------------------------------------- pure fake driver


class FakeDBAPI:
    """a PEP-249-shaped object without any database (pool-only harnesses)"""

    paramstyle = "qmark"
    apilevel = "2.0"
    threadsafety = 1
    sqlite_version_info = sqlite3.sqlite_version_info
    sqlite_version = sqlite3.sqlite_version
    version_info = getattr(sqlite3, "version_info", (2, 6, 0))
    Error = sqlite3.Error
    Warning = sqlite3.Warning
    InterfaceError = sqlite3.InterfaceError
    DatabaseError = sqlite3.DatabaseError
    OperationalError = sqlite3.OperationalError
    ProgrammingError = sqlite3.ProgrammingError
    IntegrityError = sqlite3.IntegrityError
    DataError = sqlite3.DataError
    InternalError = sqlite3.InternalError
    NotSupportedError = sqlite3.NotSupportedError
    PARSE_DECLTYPES = sqlite3.PARSE_DECLTYPES
    PARSE_COLNAMES = sqlite3.PARSE_COLNAMES
    Binary = sqlite3.Binary

    def __init__(self, ledger):
        self._vf_ledger = ledger

    def connect(self, *a, **kw):
        led = self._vf_ledger
        ci = led.new_conn()
        fault = led.call(ci, "connect")
        if fault is not None:
            ci.failed_connect = True
            raise make_exc(fault)
        ci.open = True
        conn = FakeConnection(led, ci)
        ci.obj = conn
        return conn

    def dialect(self):
        """a real SQLite dialect bound to this fake module (is_disconnect, do_ping, do_rollback ...)"""
        from sqlalchemy.dialects.sqlite.pysqlite import SQLiteDialect_pysqlite

        return SQLiteDialect_pysqlite(dbapi=self)


class FakeConnection:
    isolation_level = ""

    def __init__(self, ledger, ci):
        self._vf_ledger = ledger
        self._vf_ci = ci
        self._vf_cid = ci.cid

    def __repr__(self):
        return "<fake conn c%d>" % self._vf_cid

    def _vf_really_close(self):
        pass

    def _vf_kill(self):
        self._vf_ci.dead = True

    def _vf_do(self, kind, info=None):
        ci = self._vf_ci
        led = self._vf_ledger
        fault = led.call(ci, kind, info)
        if fault is not None:
            if fault == "disc":
                ci.dead = True
            raise make_exc(fault)
        if led.enabled and (ci.dead or not ci.open):
            raise sqlite3.ProgrammingError(DISCONNECT_MSG)

    @property
    def in_transaction(self):
        return self._vf_ci.in_transaction

    def cursor(self):
        self._vf_do("cursor")
        return FakeCursor(self)

    def commit(self):
        self._vf_do("commit")
        self._vf_ci.in_transaction = False

    def rollback(self):
        self._vf_do("rollback")
        self._vf_ci.in_transaction = False

    def close(self):
        ci = self._vf_ci
        led = self._vf_ledger
        fault = led.call(ci, "close")
        if led.enabled:
            ci.close_attempts += 1
            ci.open = False
        if fault is not None:
            if fault == "disc":
                ci.dead = True
            raise make_exc(fault)

    def create_function(self, *a, **kw):
        pass


class FakeCursor:
    description = None
    rowcount = -1
    lastrowid = None
    arraysize = 1

    def __init__(self, conn):
        self._vf_conn = conn
        self._rows = []

    def execute(self, statement, parameters=()):
        self._vf_conn._vf_do("execute", _stmt_head(statement))
        s = str(statement).strip().upper()
        if s.startswith("SELECT"):
            self._rows = [(1,)]
            self.description = (("1", None, None, None, None, None, None),)
        else:
            self._vf_conn._vf_ci.in_transaction = True
            self._rows = []
        return self

    def executemany(self, statement, parameters):
        self._vf_conn._vf_do("executemany", _stmt_head(statement))
        self._vf_conn._vf_ci.in_transaction = True
        return self

    def fetchone(self):
        self._vf_conn._vf_do("fetchone")
        return self._rows.pop(0) if self._rows else None

    def fetchmany(self, size=None):
        self._vf_conn._vf_do("fetchmany")
        rows, self._rows = self._rows, []
        return rows

    def fetchall(self):
        self._vf_conn._vf_do("fetchall")
        rows, self._rows = self._rows, []
        return rows

    def close(self):
        self._vf_conn._vf_do("cursor_close")


# ------------------------------------------------------------- virtual clock


class VirtualClock:
    """stands in for the ``time`` module as seen by sqlalchemy.pool.base"""

    def __init__(self, start=1000.0, step=1.0):
        self.now = float(start)
        self.step = float(step)
        self.reads = 0

    def time(self):
        self.now += self.step
        self.reads += 1
        return self.now

    def advance(self, dt):
        self.now += float(dt)

    def __getattr__(self, name):
        import time as _t

        return getattr(_t, name)


@contextlib.contextmanager
def pool_clock(clock):
    import sqlalchemy.pool.base as pb

    old = pb.time
    pb.time = clock
    try:
        yield clock
    finally:
        pb.time = old
