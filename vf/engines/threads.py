"""Engine T: stateless, preemption-bounded exploration of thread schedules on
the real code (CHESS-style iterative context bounding).

* Every harness thread is a real ``threading.Thread``; exactly one runs at a
  time (per-thread semaphore = baton).
* Scheduling points come from ``sys.monitoring`` local events enabled on every
  code object of the harness' *scheduling set* of source files:
    - model "gil": PY_START / PY_RESUME / C_RETURN / backward JUMP -- the places
      where CPython 3.12 with the GIL can switch threads; ``util.mini_gil`` stays
      the nullcontext it is on this interpreter.
    - model "ft": every LINE event, with ``util.mini_gil`` rebound to a cooperative
      RLock (what the library does on free-threaded builds).
  plus every cooperative synchronisation operation (Lock/RLock/Condition).
* The library's ``threading`` / ``time`` module names are rebound *from the
  harness* to cooperative versions (no source hook).
* Exploration: DFS over choice prefixes; at a point where the running thread is
  still enabled, switching away costs one preemption; all schedules with
  <= bound preemptions are executed, each to completion.
* A virtual clock advances one tick per read; a blocked waiter's timer fires
  only when no thread is enabled ("time passes only when nothing else can
  happen").  No enabled thread and no timer = deadlock.

Public API: ``explore(harness, model, bound, rec, ...)`` where harness has
  files: set[str]                      scheduling set (absolute file names)
  patches(ex) -> list[(obj, attr, val)]   extra rebinding (FakeThreading / FakeTime are provided)
  setup(ex) -> ctx                     build fresh objects (uncontrolled, main thread)
  bodies: list[callable(ctx, tid)]
  check(ex, ctx) -> (outcome_key, [problem strings])
"""
from __future__ import annotations

import gc
import sys
import threading as _th
import types

mon = sys.monitoring
TOOL = mon.DEBUGGER_ID
E = mon.events
HORIZON = 20000


class Deadlock(Exception):
    pass


class Abort(BaseException):
    pass


class ReplayDivergence(RuntimeError):
    pass


def code_objects_of(files):
    out, seen = [], set()

    def walk(co):
        if co in seen:
            return
        seen.add(co)
        out.append(co)
        for c in co.co_consts:
            if isinstance(c, types.CodeType):
                walk(c)

    for obj in gc.get_objects():
        if isinstance(obj, types.FunctionType) and obj.__code__.co_filename in files:
            walk(obj.__code__)
    return out


_current = {}  # OS thread ident -> VT
_active = {"ex": None}


def cur_vt():
    return _current.get(_th.get_ident())


class Exec:
    """one controlled execution"""

    def __init__(self, prefix, model):
        self.prefix = list(prefix)
        self.k = 0
        self.choices = []
        self.points = []  # (n_enabled, running_enabled)
        self.model = model
        self.vts = {}
        self.aborted = False
        self.deadlock = False
        self.horizon_hit = False
        self.steps = 0
        self.clock = 0.0
        self.main_sem = _th.Semaphore(0)
        self.timers_fired = 0
        self.log = []
        self.on_point = None
        self.on_timer = None

    def time(self):
        self.clock += 1.0
        return self.clock

    def enabled(self):
        return [t for t in sorted(self.vts) if self.vts[t].runnable()]

    def choose(self, me):
        en = self.enabled()
        if not en:
            waiters = [v for v in self.vts.values() if not v.done and v.deadline is not None]
            if waiters:
                w = min(waiters, key=lambda v: (v.deadline, v.tid))
                self.clock = max(self.clock, w.deadline)
                w.timed_out = True
                self.timers_fired += 1
                if self.on_timer is not None:
                    self.on_timer(self, w)
                en = [w.tid]
            elif all(v.done for v in self.vts.values()):
                return None
            else:
                raise Deadlock()
        running_enabled = me in en
        if running_enabled:
            en.remove(me)
            en.insert(0, me)
        if len(en) == 1:
            return en[0]
        if self.k < len(self.prefix):
            c = self.prefix[self.k]
            if c >= len(en):
                raise ReplayDivergence("choice %d of %d enabled at point %d" % (c, len(en), self.k))
        else:
            c = 0
        self.k += 1
        self.choices.append(c)
        self.points.append((len(en), running_enabled))
        return en[c]

    def switch_from(self, vt):
        try:
            nxt = self.choose(vt.tid if vt.runnable() else None)
        except Deadlock:
            self.deadlock = True
            self.aborted = True
            self.main_sem.release()
            raise Abort()
        if nxt is None:
            return
        if nxt != vt.tid:
            self.vts[nxt].sem.release()
            vt.sem.acquire()
            if self.aborted:
                raise Abort()


class VT:
    def __init__(self, ex, tid, fn):
        self.ex, self.tid, self.fn = ex, tid, fn
        self.sem = _th.Semaphore(0)
        self.done = False
        self.exc = None
        self.result = None
        self.cond = None
        self.deadline = None
        self.timed_out = False
        self.in_cb = False
        self.worker = None

    def runnable(self):
        if self.done:
            return False
        if self.cond is None:
            return True
        return self.timed_out or self.cond()

    def _run(self):
        try:
            self.sem.acquire()
            if self.ex.aborted:
                return
            try:
                self.result = self.fn()
            except Abort:
                pass
            except BaseException as e:  # noqa
                self.exc = e
            finally:
                self.done = True
                self.in_cb = True
                ex = self.ex
                if not ex.aborted:
                    try:
                        nxt = ex.choose(None)
                    except Deadlock:
                        ex.deadlock = True
                        ex.aborted = True
                        nxt = None
                    except ReplayDivergence as e:
                        ex.aborted = True
                        ex.log.append(("divergence", str(e)))
                        nxt = None
                    if nxt is None:
                        ex.main_sem.release()
                    else:
                        ex.vts[nxt].sem.release()
        finally:
            pass

    def point(self):
        ex = self.ex
        if self.in_cb or self.done:
            return
        ex.steps += 1
        if ex.steps > HORIZON and not ex.aborted:
            ex.horizon_hit = True
            ex.aborted = True
            ex.main_sem.release()
        if ex.aborted:
            raise Abort()
        self.in_cb = True
        try:
            if ex.on_point is not None:
                ex.on_point(ex)
            ex.switch_from(self)
        finally:
            self.in_cb = False

    def block(self, cond, deadline=None):
        """block until cond() holds or the timer fires; True if cond holds"""
        self.cond = cond
        self.deadline = deadline
        self.timed_out = False
        was = self.in_cb
        self.in_cb = True
        try:
            while not (cond() or self.timed_out):
                self.ex.switch_from(self)
            return cond()
        finally:
            self.cond = None
            self.deadline = None
            self.in_cb = was


class Worker:
    """a reusable OS thread; one VT body per job (thread start/join per
    execution is the dominant cost on a loaded machine)"""

    def __init__(self):
        self.job = _th.Semaphore(0)
        self.done = _th.Semaphore(0)
        self.vt = None
        self.th = _th.Thread(target=self._loop, daemon=True)
        self.th.start()

    def _loop(self):
        ident = _th.get_ident()
        while True:
            self.job.acquire()
            vt = self.vt
            if vt is None:
                return
            _current[ident] = vt
            try:
                vt._run()
            finally:
                _current.pop(ident, None)
                self.vt = None
                self.done.release()

    def start(self, vt):
        self.vt = vt
        vt.worker = self
        self.job.release()

    def wait(self, timeout):
        return self.done.acquire(timeout=timeout)


_workers = []


def _get_workers(n):
    while len(_workers) < n:
        _workers.append(Worker())
    return _workers[:n]


# ---- cooperative primitives -------------------------------------------------


class CoopLock:
    def __init__(self):
        self.owner = None

    def acquire(self, blocking=True, timeout=-1):
        vt = cur_vt()
        if vt is None:
            if self.owner is not None:
                raise RuntimeError("main thread would block on a cooperative lock")
            self.owner = "main"
            return True
        vt.point()
        if self.owner is not None:
            if not blocking:
                return False
            vt.block(lambda: self.owner is None)
        self.owner = vt.tid
        return True

    def release(self):
        if self.owner is None:
            raise RuntimeError("release unlocked lock")
        self.owner = None

    def locked(self):
        return self.owner is not None

    def __enter__(self):
        self.acquire()
        return True

    def __exit__(self, *a):
        self.release()


class CoopRLock:
    def __init__(self):
        self.owner = None
        self.count = 0

    def _me(self):
        vt = cur_vt()
        return vt.tid if vt else "main"

    def acquire(self, blocking=True, timeout=-1):
        me = self._me()
        if self.owner == me:
            self.count += 1
            return True
        vt = cur_vt()
        if vt is not None:
            vt.point()
            if self.owner is not None:
                if not blocking:
                    return False
                vt.block(lambda: self.owner is None)
        elif self.owner is not None:
            raise RuntimeError("main thread would block on a cooperative rlock")
        self.owner = me
        self.count = 1
        return True

    def release(self):
        if self.owner != self._me():
            raise RuntimeError("cannot release un-acquired lock")
        self.count -= 1
        if self.count == 0:
            self.owner = None

    def __enter__(self):
        self.acquire()
        return True

    def __exit__(self, *a):
        self.release()

    def _is_owned(self):
        return self.owner == self._me()

    def _release_save(self):
        st = (self.owner, self.count)
        self.owner = None
        self.count = 0
        return st

    def _acquire_restore(self, st):
        vt = cur_vt()
        if self.owner is not None:
            vt.block(lambda: self.owner is None)
        self.owner, self.count = st


class CoopCondition:
    def __init__(self, lock=None):
        self.lock = lock if lock is not None else CoopRLock()
        self.waiters = []
        self.acquire = self.lock.acquire
        self.release = self.lock.release

    def __enter__(self):
        return self.lock.__enter__()

    def __exit__(self, *a):
        return self.lock.__exit__(*a)

    def wait(self, timeout=None):
        vt = cur_vt()
        if vt is None:
            raise RuntimeError("main thread cannot wait on a cooperative condition")
        token = [False]
        self.waiters.append(token)
        st = self.lock._release_save()
        deadline = None if timeout is None else vt.ex.clock + max(timeout, 0)
        vt.block(lambda: token[0], deadline)
        if not token[0]:
            try:
                self.waiters.remove(token)
            except ValueError:
                pass
        self.lock._acquire_restore(st)
        return token[0]

    def notify(self, n=1):
        for tok in self.waiters[:n]:
            tok[0] = True
        del self.waiters[:n]

    def notify_all(self):
        self.notify(len(self.waiters))


class FakeThreading:
    Lock = CoopLock
    RLock = CoopRLock
    Condition = CoopCondition
    local = _th.local
    get_ident = staticmethod(_th.get_ident)
    current_thread = staticmethod(_th.current_thread)
    Thread = _th.Thread


class FakeTime:
    """stands in for the ``time`` module as seen by one library module"""

    def __init__(self):
        self.ex = None

    def time(self):
        ex = _active["ex"]
        if ex is None:
            return 0.0
        return ex.time()

    def sleep(self, s):
        vt = cur_vt()
        if vt is not None:
            vt.block(lambda: False, vt.ex.clock + s)


FAKE_TIME = FakeTime()

# ---- monitoring glue --------------------------------------------------------


def _cb_point(*a):
    vt = _current.get(_th.get_ident())
    if vt is not None and vt.ex is _active["ex"]:
        vt.point()


def _cb_jump(code, off, dest):
    if dest < off:
        _cb_point()


def _cb_noop(*a):
    pass


_installed = {"codes": [], "model": None}


def install(files, model):
    uninstall()
    codes = code_objects_of(set(files))
    try:
        mon.use_tool_id(TOOL, "vf-threads")
    except ValueError:
        pass
    if model == "gil":
        mon.register_callback(TOOL, E.PY_START, _cb_point)
        mon.register_callback(TOOL, E.PY_RESUME, _cb_point)
        mon.register_callback(TOOL, E.C_RETURN, _cb_point)
        mon.register_callback(TOOL, E.JUMP, _cb_jump)
        mon.register_callback(TOOL, E.CALL, _cb_noop)
        ev = E.PY_START | E.PY_RESUME | E.JUMP | E.CALL
    elif model == "ft":
        mon.register_callback(TOOL, E.LINE, _cb_point)
        ev = E.LINE
    else:
        raise ValueError(model)
    for c in codes:
        mon.set_local_events(TOOL, c, ev)
    _installed["codes"] = codes
    _installed["model"] = model
    return len(codes)


def uninstall():
    for c in _installed["codes"]:
        try:
            mon.set_local_events(TOOL, c, 0)
        except Exception:  # noqa
            pass
    for ev in (E.PY_START, E.PY_RESUME, E.C_RETURN, E.JUMP, E.CALL, E.LINE):
        try:
            mon.register_callback(TOOL, ev, None)
        except Exception:  # noqa
            pass
    _installed["codes"] = []
    try:
        mon.free_tool_id(TOOL)
    except Exception:  # noqa
        pass


class Patches:
    def __init__(self, triples):
        self.triples = triples
        self.saved = []

    def __enter__(self):
        for obj, attr, val in self.triples:
            self.saved.append((obj, attr, getattr(obj, attr)))
            setattr(obj, attr, val)

    def __exit__(self, *a):
        for obj, attr, val in reversed(self.saved):
            setattr(obj, attr, val)
        self.saved = []


def run_once(harness, prefix, model):
    ex = Exec(prefix, model)
    _active["ex"] = ex
    try:
        ctx = harness.setup(ex)
        ex.on_point = getattr(harness, "on_point", None) and (lambda e: harness.on_point(e, ctx))
        ex.on_timer = getattr(harness, "on_timer", None) and (lambda e, w: harness.on_timer(e, ctx, w))
        for i, b in enumerate(harness.bodies):
            ex.vts[i] = VT(ex, i, (lambda b=b, i=i: b(ctx, i)))
        workers = _get_workers(len(ex.vts))
        for vt, w in zip(ex.vts.values(), workers):
            w.start(vt)
        try:
            first = ex.choose(None)
        except Deadlock:
            first = None
            ex.deadlock = True
            ex.aborted = True
        if first is not None:
            ex.vts[first].sem.release()
            ex.main_sem.acquire()
        if ex.aborted:
            for vt in ex.vts.values():
                vt.sem.release()
        for vt in ex.vts.values():
            if not vt.worker.wait(600):
                ex.log.append(("thread-stuck", vt.tid))
                _workers.remove(vt.worker)  # abandon it; a fresh worker is created next time
    finally:
        _active["ex"] = None
    return ex, ctx


def explore(harness, model, bound, rec, label, max_execs=None):
    """returns dict(execs, max_points, by_preemptions, violations=[(prefix, outcome, problems)])"""
    gc_was = gc.isenabled()
    gc.disable()
    install(harness.files, model)
    stats = dict(execs=0, max_points=0, min_points=None, violations=[], horizon=0, divergence=0)
    try:
        with Patches(harness.patches(model)):
            # warm-up: the first execution in a process runs lazy initialisers / memoizations of
            # the library (extra scheduling points); discard it so that replayed prefixes see a
            # steady state and schedule counts do not depend on what the process ran before
            run_once(harness, [], model)
            stack = [[]]
            while stack:
                prefix = stack.pop()
                ex, ctx = run_once(harness, prefix, model)
                stats["execs"] += 1
                rec.transition()
                rec.trace()
                if any(l[0] == "divergence" for l in ex.log):
                    raise ReplayDivergence("%s: prefix %r diverged: %r" % (label, prefix, ex.log))
                outcome, problems = harness.check(ex, ctx)
                if ex.horizon_hit:
                    stats["horizon"] += 1
                    rec.cap("%s: step horizon %d hit" % (label, HORIZON))
                if ex.deadlock:
                    problems = list(problems) + ["deadlock: no enabled thread and no timer"]
                if any(l[0] == "thread-stuck" for l in ex.log):
                    raise RuntimeError("%s: harness thread stuck after abort: %r" % (label, ex.log))
                rec.state((label, outcome))
                rec.outcome((label, outcome))
                npts = len(ex.points)
                stats["max_points"] = max(stats["max_points"], npts)
                stats["min_points"] = npts if stats["min_points"] is None else min(stats["min_points"], npts)
                if problems:
                    # believe a failure only if the same schedule fails the same way twice
                    ex2, ctx2 = run_once(harness, ex.choices, model)
                    o2, p2 = harness.check(ex2, ctx2)
                    if ex2.deadlock:
                        p2 = list(p2) + ["deadlock: no enabled thread and no timer"]
                    if (o2, list(p2)) != (outcome, list(problems)) or ex2.choices != ex.choices:
                        raise ReplayDivergence("%s: schedule %r not reproducible: %r vs %r" % (label, ex.choices, problems, p2))
                    stats["violations"].append((list(ex.choices), outcome, list(problems)))
                    if len(stats["violations"]) >= 3:
                        break
                cost = 0
                costs = []
                for (nen, run_en), ch in zip(ex.points, ex.choices):
                    costs.append(cost)
                    if run_en and ch != 0:
                        cost += 1
                for i in range(len(prefix), len(ex.points)):
                    nen, run_en = ex.points[i]
                    c = costs[i] + (1 if run_en else 0)
                    if c > bound:
                        continue
                    for alt in range(1, nen):
                        stack.append(ex.choices[:i] + [alt])
                if max_execs and stats["execs"] >= max_execs:
                    rec.cap("%s: execution cap %d reached" % (label, max_execs))
                    break
    finally:
        uninstall()
        if gc_was:
            gc.enable()
            gc.collect()
    return stats


def replay_schedule(harness, model, choices):
    gc_was = gc.isenabled()
    gc.disable()
    install(harness.files, model)
    try:
        with Patches(harness.patches(model)):
            ex, ctx = run_once(harness, choices, model)
            outcome, problems = harness.check(ex, ctx)
            if ex.deadlock:
                problems = list(problems) + ["deadlock: no enabled thread and no timer"]
            return outcome, problems
    finally:
        uninstall()
        if gc_was:
            gc.enable()
