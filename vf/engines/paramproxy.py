"""Proxy DBAPI module over ``sqlite3`` with a selectable ``paramstyle``.

    proxy = ParamProxy("pyformat")
    eng = create_engine("sqlite://", module=proxy, paramstyle="pyformat", poolclass=StaticPool)

The proxy behaves like a driver *of that paramstyle*: ``cursor.execute`` /
``executemany`` record exactly what SQLAlchemy handed over (``proxy.log``),
then interpret the statement the way a driver of that style does and delegate
to the real ``sqlite3`` cursor:

* ``qmark`` / ``named``      - passed through unchanged (sqlite3 native).
* ``numeric`` (``:1``) / ``numeric_dollar`` (``$1``) - each placeholder token
  (found by a lexer that skips string literals, quoted identifiers and
  comments, as a server-side parser does) is rewritten to SQLite's ``?NNN``.
* ``format`` (``%s``) / ``pyformat`` (``%(name)s``) - the *whole* string goes
  through Python %-formatting rules exactly like psycopg2 / MySQLdb /
  pymysql do (``%%`` -> ``%`` everywhere, also inside literals; any other
  ``%x`` is an error); each conversion becomes a ``?`` / ``:pyN`` placeholder.

``decode(style, sql, params)`` gives the driver-independent view used by the
C04 oracles: (skeleton SQL with every placeholder replaced by the marker
``PH``, the list of values bound at the successive placeholder occurrences).
"""
from __future__ import annotations

import re
import sqlite3

STYLES = ("qmark", "numeric", "numeric_dollar", "named", "format", "pyformat")


PH = "\x00"  # placeholder marker inside a skeleton


class ProxyProtocolError(sqlite3.ProgrammingError):
    """the statement/parameters are not acceptable to a driver of this style"""


# lexer for server-side-parsed styles: alternation order matters
_LEX = re.compile(
    r"""
    (?P<str>'(?:[^']|'')*')
  | (?P<qid>"(?:[^"]|"")*"|`[^`]*`|\[[^\]]*\])
  | (?P<comment>--[^\n]*|/\*.*?\*/)
  | (?P<cast>::)
  | (?P<colon>(?<![\w:]):\w+)
  | (?P<dollar>\$\d+)
  | (?P<qmark>\?\d*)
  | (?P<other>.)
    """,
    re.X | re.S,
)


def _lex(sql):
    for m in _LEX.finditer(sql):
        k = m.lastgroup
        if k == "colon":
            k = "numeric" if m.group(0)[1:].isdigit() else "named"
        yield k, m.group(0)


def _percent_scan(sql):
    """Python %-format scanning over the whole string (what format / pyformat
    drivers do).  yields ('text', s) | ('pos', None) | ('key', name)"""
    i = 0
    n = len(sql)
    buf = []
    while i < n:
        ch = sql[i]
        if ch != "%":
            buf.append(ch)
            i += 1
            continue
        if i + 1 >= n:
            raise ProxyProtocolError("incomplete format at end of statement")
        nx = sql[i + 1]
        if nx == "%":
            buf.append("%")
            i += 2
        elif nx == "s":
            if buf:
                yield "text", "".join(buf)
                buf = []
            yield "pos", None
            i += 2
        elif nx == "(":
            j = sql.find(")", i + 2)
            if j < 0 or j + 1 >= n or sql[j + 1] != "s":
                raise ProxyProtocolError("unsupported format near %r" % sql[i : i + 12])
            if buf:
                yield "text", "".join(buf)
                buf = []
            yield "key", sql[i + 2 : j]
            i = j + 2
        else:
            raise ProxyProtocolError("unsupported format character %r at %d (unescaped %% sign)" % (nx, i))
    if buf:
        yield "text", "".join(buf)


def decode(style, sql, params):
    """-> (skeleton, values): placeholder occurrences in textual order with the
    value each one receives from ``params`` under ``style``"""
    skel = []
    vals = []
    if style in ("format", "pyformat"):
        npos = 0
        for kind, s in _percent_scan(sql):
            if kind == "text":
                skel.append(s)
            elif kind == "pos":
                if style != "format" and isinstance(params, dict):
                    raise ProxyProtocolError("positional %s with mapping parameters")
                if npos >= len(params):
                    raise ProxyProtocolError("not enough parameters for %s placeholders")
                skel.append(PH)
                vals.append(params[npos])
                npos += 1
            else:
                if not isinstance(params, dict):
                    raise ProxyProtocolError("%(name)s with sequence parameters")
                if s not in params:
                    raise ProxyProtocolError("no parameter for %%(%s)s" % s)
                skel.append(PH)
                vals.append(params[s])
        if style == "format" and npos != len(params):
            raise ProxyProtocolError("%d parameters for %d %%s placeholders" % (len(params), npos))
        return "".join(skel), vals
    npos = 0
    maxn = 0
    for kind, s in _lex(sql):
        if kind == "qmark" and style == "qmark":
            if s != "?":
                raise ProxyProtocolError("numbered ? in qmark style")
            if npos >= len(params):
                raise ProxyProtocolError("not enough parameters for ? placeholders")
            skel.append(PH)
            vals.append(params[npos])
            npos += 1
        elif kind == "named" and style == "named":
            name = s[1:]
            if not isinstance(params, dict) or name not in params:
                raise ProxyProtocolError("no parameter for :%s" % name)
            skel.append(PH)
            vals.append(params[name])
        elif (kind == "numeric" and style == "numeric") or (kind == "dollar" and style == "numeric_dollar"):
            k = int(s[1:])
            if isinstance(params, dict) or k < 1 or k > len(params):
                raise ProxyProtocolError("no parameter number %d" % k)
            maxn = max(maxn, k)
            skel.append(PH)
            vals.append(params[k - 1])
        elif kind in ("qmark", "named", "numeric", "dollar"):
            raise ProxyProtocolError("placeholder %r in a %s statement" % (s, style))
        else:
            skel.append(s)
    if style == "qmark" and npos != len(params):
        raise ProxyProtocolError("%d parameters for %d ? placeholders" % (len(params), npos))
    if style.startswith("numeric") and maxn != len(params or ()):
        raise ProxyProtocolError("%d parameters but highest placeholder is %d" % (len(params or ()), maxn))
    return "".join(skel), vals


class _Cursor:
    def __init__(self, conn, real):
        self._conn = conn
        self._real = real

    def _native(self, sql, params):
        """statement + parameters in sqlite3's own qmark form"""
        style = self._conn._proxy.paramstyle
        if params is None:
            params = ()
        if style in ("qmark", "named"):
            return sql, params
        skel, vals = decode(style, sql, params)
        return skel.replace(PH, "?"), tuple(vals)

    def execute(self, sql, params=()):
        px = self._conn._proxy
        px.log.append(("execute", sql, _freeze(params)))
        nsql, nparams = self._native(sql, params)
        self._real.execute(nsql, nparams)
        return self

    def executemany(self, sql, seq):
        px = self._conn._proxy
        seq = list(seq)
        px.log.append(("executemany", sql, [_freeze(p) for p in seq]))
        style = px.paramstyle
        if style in ("qmark", "named"):
            self._real.executemany(sql, seq)
        else:
            native = [self._native(sql, p) for p in seq]
            if native:
                self._real.executemany(native[0][0], [n[1] for n in native])
        return self

    def __getattr__(self, name):
        return getattr(self._real, name)

    def __iter__(self):
        return iter(self._real)


def _freeze(p):
    if isinstance(p, dict):
        return dict(p)
    if p is None:
        return ()
    return tuple(p)


class _Connection:
    def __init__(self, proxy, real):
        object.__setattr__(self, "_proxy", proxy)
        object.__setattr__(self, "_real", real)

    def cursor(self, *a, **kw):
        return _Cursor(self, self._real.cursor(*a, **kw))

    def execute(self, sql, params=()):
        return self.cursor().execute(sql, params)

    def __getattr__(self, name):
        return getattr(self._real, name)

    def __setattr__(self, name, value):
        setattr(self._real, name, value)


class ParamProxy:
    """module-like object: everything not overridden comes from ``sqlite3``"""

    apilevel = "2.0"
    threadsafety = 1

    def __init__(self, paramstyle):
        assert paramstyle in STYLES
        self.paramstyle = paramstyle
        self.log = []
        self.connections = []

    def connect(self, *a, **kw):
        kw.pop("factory", None)
        real = sqlite3.connect(*a, **kw)
        c = _Connection(self, real)
        self.connections.append(c)
        return c

    def __getattr__(self, name):
        return getattr(sqlite3, name)
