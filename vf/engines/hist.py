"""Engine H: explicit-state BFS over operation histories, by replay.

A state is identified with the history that reaches it.  Live objects are
rebuilt by replaying the history on fresh implementation objects; the
reference model is carried along as a value (deep-copyable / immutable).

    explore(rec, roots, enabled, step, depth)

* ``roots``: iterable of (history tuple, model_state)
* ``enabled(model_state)`` -> iterable of ops (JSON-able, simplest first)
* ``step(history, model_state, op)`` -> (new_model_state, canon_key) or None.
  It must (a) rebuild the implementation by replaying ``history``, (b) apply
  ``op`` to both implementation and model in lock-step, (c) record violations
  itself through ``rec.violation``, and (d) return the model state after the
  op plus a canonical key of the *implementation-visible* state (None stops
  exploration below this node, e.g. after a violation or a terminal op).
* ``depth``: maximum history length beyond the root (None = run to fixpoint,
  i.e. until no new canonical state appears -> complete for every depth).
"""
from collections import deque


def explore(rec, roots, enabled, step, depth=None, state_cap=None):
    frontier = deque()
    for hist, ms, key in roots:
        if rec.state(key):
            frontier.append((tuple(hist), ms, 0))
    maxd = 0
    while frontier:
        hist, ms, d = frontier.popleft()
        if depth is not None and d >= depth:
            continue
        for op in enabled(ms):
            rec.transition()
            rec.trace()
            out = step(hist, ms, op)
            if out is None:
                continue
            nms, key = out
            if rec.state(key):
                if state_cap is not None and len(rec.states) > state_cap:
                    rec.cap("state cap %d reached at depth %d" % (state_cap, d + 1))
                    return maxd
                frontier.append((hist + (op,), nms, d + 1))
                maxd = max(maxd, d + 1)
    return maxd
