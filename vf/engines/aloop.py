"""Engine A: a virtual asyncio event loop and a fake aiosqlite-shaped driver.

``VLoop`` subclasses ``asyncio.BaseEventLoop``: virtual ``time()``, no
selector, the ready queue and the timer heap are popped by hand (one handle per
``step()``), so a whole SQLAlchemy asyncio program (``ext/asyncio``,
``greenlet_spawn`` / ``await_``, ``connectors/asyncio.py``, the aiosqlite
dialect adapter, ``AsyncAdaptedQueuePool``) runs in one thread with no
uncontrolled nondeterminism.  After every step a *hook* may act on the driving
task: cancellation mode = run the program once to count the step boundaries N
at which the driving task is still pending (this includes every await point at
which it is suspended), then for every j < N re-run on a fresh loop and call
``task.cancel()`` at boundary j; timeout mode = the program is wrapped in
``asyncio.wait_for`` and the virtual clock jumps past the deadline at boundary
j.

``FakeDriver`` is the database side: an ``aiosqlite``-shaped connection /
cursor pair whose coroutines perform the ``sqlite3`` call synchronously and
then suspend exactly once on a loop future (this is also what the real
aiosqlite does from the caller's point of view: the call is queued to the
worker thread and is executed whether or not the awaiting task is cancelled
meanwhile).  It is handed to SQLAlchemy through the public
``create_async_engine("sqlite+aiosqlite://", async_creator=...)`` hook, so no
SQLAlchemy code is replaced.  Every driver call is written to a ledger.
"""
from __future__ import annotations

import asyncio
import heapq
import sqlite3
import weakref
from asyncio import events


class Deadlock(RuntimeError):
    pass


class Horizon(RuntimeError):
    pass


class VLoop(asyncio.BaseEventLoop):
    def __init__(self):
        super().__init__()
        self._vt = 0.0
        self.exc = []  # contexts passed to the loop's exception handler
        self.steps = 0
        self.set_exception_handler(lambda loop, ctx: self.exc.append(ctx))

    # ---- BaseEventLoop plumbing
    def time(self):
        return self._vt

    def _process_events(self, event_list):
        pass

    def _write_to_self(self):
        pass

    # ---- stepping
    def _due(self):
        while self._scheduled and self._scheduled[0]._when <= self._vt:
            th = heapq.heappop(self._scheduled)
            th._scheduled = False
            if not th._cancelled:
                self._ready.append(th)

    def step(self, advance_clock=True):
        """run exactly one ready handle (advancing the virtual clock to the next
        timer when nothing is ready); False when there is nothing to do"""
        self._due()
        while not self._ready:
            # drop cancelled timers, then jump to the earliest live one
            while self._scheduled and self._scheduled[0]._cancelled:
                th = heapq.heappop(self._scheduled)
                th._scheduled = False
            if not self._scheduled or not advance_clock:
                return False
            self._vt = max(self._vt, self._scheduled[0]._when)
            self._due()
        h = self._ready.popleft()
        if not h._cancelled:
            events._set_running_loop(self)
            try:
                h._run()
            finally:
                events._set_running_loop(None)
        self.steps += 1
        return True

    def spawn(self, coro):
        events._set_running_loop(self)
        try:
            return self.create_task(coro)
        finally:
            events._set_running_loop(None)

    def drive(self, task, hook=None, max_steps=200000):
        """run until ``task`` is done; ``hook(loop, task)`` is called at every
        step boundary at which the task is still pending"""
        n = 0
        if hook is not None and not task.done():
            hook(self, task)
        while not task.done():
            if not self.step():
                raise Deadlock("driving task pending, nothing ready or scheduled")
            n += 1
            if n > max_steps:
                raise Horizon("step horizon reached")
            if hook is not None and not task.done():
                hook(self, task)

    def settle(self, max_steps=20000):
        """run to quiescence (nothing ready, no live timer)"""
        n = 0
        while self.step():
            n += 1
            if n > max_steps:
                raise Horizon("loop does not become quiescent")
        return n

    def dispose(self):
        self._ready.clear()
        self._scheduled.clear()
        try:
            self.close()
        except Exception:
            pass


def _wake(f):
    if not f.done():
        f.set_result(None)


async def _suspend_once():
    loop = asyncio.get_running_loop()
    f = loop.create_future()
    loop.call_soon(_wake, f)
    await f


class FakeDriver:
    """ledger + connection factory; one instance per run"""

    def __init__(self, path, timeout=0.0):
        self.path = path
        self.timeout = timeout
        self.conns = []
        self.ledger = []
        self.commits = 0

    def log(self, *ev):
        self.ledger.append(ev)

    async def creator(self, *a, **k):
        c = FConn(self)
        try:
            await _suspend_once()
        except BaseException:
            # cancelled before SQLAlchemy ever received the connection: nobody
            # but the driver can close it (not an SQLAlchemy responsibility)
            c.stop()
            raise
        return c

    def open_conns(self):
        return [c for c in self.conns if c.open]

    def close_all(self):
        for c in self.conns:
            if c.open:
                try:
                    c.raw.close()
                except Exception:
                    pass
                c.open = False


class FCursor:
    arraysize = 1

    def __init__(self, conn):
        self.c = conn
        self.cur = conn.raw.cursor()
        conn.cursors.add(self.cur)

    async def execute(self, sql, params=()):
        self.c.d.log("execute", self.c.id, sql)
        self.cur.execute(sql, params)
        await _suspend_once()
        return self

    async def executemany(self, sql, params):
        self.c.d.log("executemany", self.c.id, sql)
        self.cur.executemany(sql, params)
        await _suspend_once()
        return self

    async def fetchall(self):
        r = self.cur.fetchall()
        await _suspend_once()
        return r

    async def fetchone(self):
        r = self.cur.fetchone()
        await _suspend_once()
        return r

    async def fetchmany(self, size=None):
        r = self.cur.fetchmany(size or self.arraysize)
        await _suspend_once()
        return r

    async def close(self):
        self.cur.close()
        await _suspend_once()

    @property
    def description(self):
        return self.cur.description

    @property
    def rowcount(self):
        return self.cur.rowcount

    @property
    def lastrowid(self):
        return self.cur.lastrowid

    async def __aenter__(self):
        await _suspend_once()
        return self

    async def __aexit__(self, *a):
        await self.close()

    def __aiter__(self):
        return self

    async def __anext__(self):
        r = await self.fetchone()
        if r is None:
            raise StopAsyncIteration
        return r


class _Tx:
    """aiosqlite's worker-thread queue as seen by the dialect's isolation_level
    setter: ``put_nowait((future, function))``; the function runs at once, the
    future is resolved by the loop one step later"""

    def put_nowait(self, item):
        fut, fn = item
        loop = fut.get_loop()
        try:
            res = fn()
        except Exception as e:  # noqa
            loop.call_soon(lambda: fut.done() or fut.set_exception(e))
        else:
            loop.call_soon(lambda: fut.done() or fut.set_result(res))


class FConn:
    def __init__(self, driver):
        self.d = driver
        self.raw = sqlite3.connect(driver.path, timeout=driver.timeout, autocommit=False, check_same_thread=False)
        self._conn = self.raw
        self._tx = _Tx()
        self.cursors = weakref.WeakSet()
        self.open = True
        self._connection = True  # the aiosqlite adapter tests this attribute before commit/rollback
        driver.conns.append(self)
        self.id = len(driver.conns)
        driver.log("connect", self.id)

    def cursor(self):
        return FCursor(self)

    async def commit(self):
        self.d.log("commit", self.id)
        self.raw.commit()
        self.d.commits += 1
        await _suspend_once()

    async def rollback(self):
        self.d.log("rollback", self.id)
        self.raw.rollback()
        await _suspend_once()

    def _finalize_cursors(self):
        # sqlite3.Connection.close() with an un-reset statement leaves a zombie
        # connection (sqlite3_close_v2) that keeps its locks for as long as the
        # cursor object is referenced -- e.g. from the traceback of a cancelled
        # task the harness still holds.  Whether SQLAlchemy closed the
        # connection is the question here, so a closed connection is really closed.
        for cur in list(self.cursors):
            try:
                cur.close()
            except Exception:
                pass

    async def close(self):
        self.d.log("close", self.id)
        if self.open:
            self._finalize_cursors()
            self.raw.close()
        self.open = False
        self._connection = None
        await _suspend_once()

    def stop(self):
        self.d.log("stop", self.id)
        if self.open:
            self._finalize_cursors()
            self.raw.close()
        self.open = False
        self._connection = None

    async def create_function(self, *a, **k):
        self.raw.create_function(*a, **k)
        await _suspend_once()

    @property
    def isolation_level(self):
        return self.raw.isolation_level

    @property
    def in_transaction(self):
        return self.raw.in_transaction


def cancel_at(j, seen=None):
    """hook: cancel the driving task at step boundary j"""

    def hook(loop, task):
        if seen is not None:
            seen.append(loop.steps)
        if loop.steps == j and not getattr(hook, "fired", False):
            hook.fired = True
            task.cancel()

    return hook


def timeout_at(j):
    """hook: at boundary j the virtual clock jumps to the deadline of the
    pending timer(s) (``asyncio.wait_for`` / ``asyncio.timeout``); when no live
    timer exists at j (program not started yet / already past its timeout
    scope) nothing is injected and ``hook.fired`` stays False"""

    def hook(loop, task):
        if loop.steps == j and not getattr(hook, "done", False):
            hook.done = True
            live = [th for th in loop._scheduled if not th._cancelled]
            if live:
                hook.fired = True
                loop._vt = max(loop._vt, max(th._when for th in live))

    return hook


class Counter:
    """hook used by the counting run: number of boundaries, number of distinct
    suspensions of the driving task (await points at which it was parked)"""

    def __init__(self):
        self.boundaries = []
        self.suspensions = 0
        self._last = None

    def __call__(self, loop, task):
        self.boundaries.append(loop.steps)
        w = task._fut_waiter
        if w is not None and w is not self._last:
            self.suspensions += 1
        self._last = w
