#!/bin/bash
# usage: tools/mut.sh <name> <file-relative-to-lib/sqlalchemy> <python-expr-old> <python-expr-new> -- check args...
# makes a fresh scratch copy /tmp/wt-<name>, applies one textual replacement, runs ./check with VF_REPO, removes the copy
name=$1; file=$2; old=$3; new=$4; shift 4; [ "$1" = "--" ] && shift
d=/tmp/wt-$name
mkdir -p $d && rsync -a --delete --exclude "*.so" --exclude __pycache__ /repo/lib $d/ || exit 3
OLD="$old" NEW="$new" python3 - "$d/lib/sqlalchemy/$file" <<'PY' || exit 3
import os, sys
p = sys.argv[1]; s = open(p).read(); old = os.environ["OLD"]; new = os.environ["NEW"]
if s.count(old) != 1:
    print("MUT: pattern occurs %d times" % s.count(old)); sys.exit(1)
open(p, "w").write(s.replace(old, new))
PY
cd /verif && VF_REPO=$d ./check "$@" --no-evidence 2>&1 | grep -E "signature|VIOLATION|^C[0-9]+ tier|harness|HARNESS" | cut -c1-220 | tail -6
rm -rf /tmp/wt-$name
