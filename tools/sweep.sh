#!/bin/bash
# usage: [SKIP='C34 C53'] [ONLY='C01 C02'] [EXTRA=--no-evidence] tools/sweep.sh <seed> [tier]   -- run every registered check once, sequentially; summary in /dev/shm/sweep_<seed>_<tier>.log
seed=${1:-0}; tier=${2:-quick}
out=/dev/shm/sweep_${seed}_${tier}${TAG}.log; : > $out
cd /verif
for id in $(python3 -c "import json; print(' '.join(c['property_id'] for c in json.load(open('MANIFEST.json'))['checks']))"); do
  case " $SKIP " in *" $id "*) continue;; esac
  if [ -n "$ONLY" ]; then case " $ONLY " in *" $id "*) ;; *) continue;; esac; fi
  t0=$(date +%s)
  VERIF_SEED=$seed timeout ${TMO:-36000} ./check $id --tier $tier $EXTRA > /dev/shm/sweep_out_${id}${TAG}.txt 2>&1; rc=$?
  t1=$(date +%s)
  echo "$id rc=$rc wall=$((t1-t0))s known=$(grep -c '^KNOWN-FINDING' /dev/shm/sweep_out_${id}${TAG}.txt) :: $(grep "^$id tier" /dev/shm/sweep_out_${id}${TAG}.txt | tail -1)" >> $out
done
echo DONE >> $out
