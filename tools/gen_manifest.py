"""Regenerate /verif/MANIFEST.json from the driver modules' META (run with /venv/bin/python)."""
import importlib
import json
import os
import sys

ROOT = os.path.dirname(os.path.dirname(os.path.abspath(__file__)))
sys.path.insert(0, ROOT)
from vf import purepy  # noqa

purepy.install()

props = [json.loads(l) for l in open(os.path.join(ROOT, "properties.jsonl"))]
na_path = os.path.join(ROOT, "not_applicable.json")
na = json.load(open(na_path)) if os.path.exists(na_path) else {}
checks, not_app, engines = [], [], {}
# only checks validated on the clean tree (3 seeds, timing, mutation self-test) are registered
ready = set(open(os.path.join(ROOT, "ready.txt")).read().split())
for p in props:
    pid = p["id"]
    f = os.path.join(ROOT, "vf", "props", pid.lower() + ".py")
    if not os.path.exists(f) or pid not in ready:
        not_app.append(dict(property_id=pid, reason=na.get(pid, "check not built yet in this round; designed in DESIGN.md §5 " + pid)))
        continue
    mod = importlib.import_module("vf.props." + pid.lower())
    m = mod.META
    checks.append(
        dict(
            property_id=pid,
            quick_cmd="./check %s --tier quick" % pid,
            thorough_cmd="./check %s --tier thorough" % pid,
            evidence_file="evidence/%s.json" % pid,
            replay_cmd_template="./check %s --replay {path}" % pid,
            engine=m.get("engine", ""),
            level_claimed=dict(category=mod.LEVEL, text=m["level_text"], design_ref=m.get("design_ref", "DESIGN.md §5 " + pid)),
            level_note=m["level_note"],
            technique=m["technique"],
        )
    )
    engines.setdefault(m.get("engine", "?"), []).append(pid)
ENG = {
    "H": ("history explorer", "vf/engines/hist.py", "explicit-state BFS over operation histories by replay on the real objects, reference model in lock-step"),
    "I": ("input enumerator", "vf/props", "small-scope exhaustive input enumeration, simplest first"),
    "T": ("thread-schedule explorer", "vf/engines/threads.py", "stateless preemption-bounded schedule exploration (sys.monitoring baton scheduler, cooperative locks, virtual clock)"),
    "A": ("asyncio explorer", "vf/engines/aloop.py", "virtual event loop; every await point cancelled / every ready-queue order"),
    "F": ("fault enumerator", "vf/engines/faults.py", "proxy DBAPI with call ledger; every fault position x kind up to a deviation bound"),
}
eng_list = []
for k, pids in sorted(engines.items()):
    for kk in k.replace("/", "+").split("+"):
        kk = kk.strip()
        if kk in ENG:
            e = next((x for x in eng_list if x["name"] == ENG[kk][0]), None)
            if e is None:
                e = dict(name=ENG[kk][0], path=ENG[kk][1], serves_properties=[], kind_free_text=ENG[kk][2])
                eng_list.append(e)
            e["serves_properties"] = sorted(set(e["serves_properties"]) | set(pids))
man = dict(
    version=1,
    setup_cmd="./setup.sh",
    hooks=dict(
        guard="SQLALCHEMY_VERIF",
        enable="none required: all interposition is harness-side (meta-path finder for *_cy.py, module-attribute rebinding, sys.monitoring, proxy DBAPI); no source hooks exist in /repo",
        baseline_off_cmd="cd /repo && /venv/bin/python -m pytest -ra -q -p no:cacheprovider --timeout=900 --continue-on-collection-errors",
        source_commits=[],
        add_only=True,
    ),
    engines=eng_list,
    checks=checks,
    notes="All checks import SQLAlchemy from /repo/lib (editable install) forcing the .py sources of the seven dual Cython modules, "
    "so they always run the current working tree. ./check <ID> --tier quick|thorough [--replay F]. Known findings: known_findings.json.",
    not_applicable=not_app,
)
with open(os.path.join(ROOT, "MANIFEST.json"), "w") as f:
    json.dump(man, f, indent=1)
    f.write("\n")
print("checks:", len(checks), "not_applicable:", len(not_app))
