"""Confirm one seeded change in a scratch git worktree of /repo (outside /repo and /verif):
  1. demo.py on the unmodified tree must exit 0
  2. apply patch.diff; demo.py must exit non-zero
  3. the repository tests that exercise the touched code must still pass (pytest targets derived from
     the agent's own 'tests_run' list in meta.json, else from the touched files)
Writes the outcome into seeded/<name>/meta.json under 'confirmed' and removes the worktree.
usage: python3 tools/confirm_seeded.py <name> [<name> ...]"""
import json, os, re, shutil, subprocess, sys, time

ROOT = "/verif"
FLAKY = ["--deselect", "test/base/test_concurrency.py::GreenletImportTests", "--deselect", "test/base/test_tutorials.py::DocTest::test_asyncio"]
DEFAULT_BY_DIR = {
    "orm": ["test/orm", "test/ext"], "sql": ["test/sql", "test/dialect/test_suite.py"], "engine": ["test/engine", "test/sql/test_resultset.py", "test/base/test_result.py"],
    "pool": ["test/engine"], "event": ["test/base", "test/engine/test_pool.py", "test/orm/test_events.py"], "util": ["test/base", "test/engine/test_pool.py"],
    "dialects": ["test/dialect", "test/sql/test_compiler.py"], "ext": ["test/ext", "test/orm/test_merge.py"],
}


def run(cmd, cwd, env=None, timeout=7200):
    t = time.time()
    p = subprocess.run(cmd, cwd=cwd, env=env, capture_output=True, text=True, timeout=timeout)
    return p.returncode, (p.stdout + p.stderr), time.time() - t


def targets(meta, patch):
    tg = []
    # the agent's FIRST listed run is its focused selection; the broad directory runs it also did are
    # recorded in its own meta (tests_run) and are not repeated here for time
    for line in meta.get("tests_run", [])[:1]:
        for m in re.findall(r"(test/[\w/\.]+)", str(line)):
            m = m.rstrip(".")
            if m not in tg and "::" not in m:
                tg.append(m)
    broad = {"test/orm", "test/sql", "test/dialect", "test/engine", "test/ext", "test/base"}
    if tg and all(t in broad for t in tg) and len(tg) > 2:
        tg = tg[:2]
    if not tg:
        for f in re.findall(r"^\+\+\+ b/lib/sqlalchemy/(\w+)/", patch, re.M):
            for t in DEFAULT_BY_DIR.get(f, ["test/base"]):
                if t not in tg:
                    tg.append(t)
    return tg[:8]


def confirm(name):
    sd = os.path.join(ROOT, "seeded", name)
    meta = json.load(open(os.path.join(sd, "meta.json")))
    patch = open(os.path.join(sd, "patch.diff")).read()
    wt = "/tmp/confirm-%s" % name
    subprocess.run(["git", "-C", "/repo", "worktree", "remove", "--force", wt], capture_output=True)
    shutil.rmtree(wt, ignore_errors=True)
    subprocess.run(["git", "-C", "/repo", "worktree", "add", "-q", "--detach", wt, "HEAD"], check=True)
    env = dict(os.environ, PYTHONPATH=wt + "/lib", PYTHONDONTWRITEBYTECODE="1")
    out = dict(repo_head=subprocess.run(["git", "-C", "/repo", "log", "-1", "--format=%h"], capture_output=True, text=True).stdout.strip())
    try:
        rc, txt, _ = run(["/venv/bin/python", os.path.join(sd, "demo.py")], wt, env, 1800)
        out["demo_without_change"] = "exit %d: %s" % (rc, txt.strip().splitlines()[-1][:160] if txt.strip() else "")
        ap = subprocess.run(["git", "apply", os.path.join(sd, "patch.diff")], cwd=wt, capture_output=True, text=True)
        if ap.returncode:
            ap = subprocess.run(["patch", "-p1", "-s", "-i", os.path.join(sd, "patch.diff")], cwd=wt, capture_output=True, text=True)
        out["patch_applies"] = ap.returncode == 0
        rc2, txt2, _ = run(["/venv/bin/python", os.path.join(sd, "demo.py")], wt, env, 1800)
        out["demo_with_change"] = "exit %d: %s" % (rc2, txt2.strip().splitlines()[-1][:200] if txt2.strip() else "")
        tg = targets(meta, patch)
        cmd = ["/venv/bin/python", "-m", "pytest"] + tg + ["-q", "-p", "no:cacheprovider", "-n", os.environ.get("CONFIRM_N", "6"), "--timeout=900"] + FLAKY
        rc3, txt3, dt = run(cmd, wt, env, 4 * 3600)
        tail = [l for l in txt3.strip().splitlines() if " passed" in l or " failed" in l or "error" in l.lower()][-1:]
        out["tests_cmd"] = "pytest " + " ".join(tg) + " -n %s (with the change applied, cwd=scratch worktree, PYTHONPATH=<worktree>/lib)" % os.environ.get("CONFIRM_N", "6")
        out["tests_result"] = (tail[0] if tail else "exit %d" % rc3)[-200:]
        out["tests_exit"] = rc3
        out["ok"] = bool(rc == 0 and rc2 != 0 and rc3 == 0 and out["patch_applies"])
    finally:
        subprocess.run(["git", "-C", "/repo", "worktree", "remove", "--force", wt], capture_output=True)
        shutil.rmtree(wt, ignore_errors=True)
    meta["confirmed"] = out
    json.dump(meta, open(os.path.join(sd, "meta.json"), "w"), indent=1)
    print(name, json.dumps(out)[:400])


if __name__ == "__main__":
    for n in sys.argv[1:]:
        try:
            confirm(n)
        except Exception as e:  # noqa
            print(n, "ERROR", e)
