"""Regenerate the generated tables of DESIGN.md §10 (between the BEGIN/END GENERATED markers):
registered checks, known findings (fixed / open), seeded changes and which check caught them."""
import glob, json, os, re, subprocess
ROOT = os.path.dirname(os.path.dirname(os.path.abspath(__file__)))
man = json.load(open(os.path.join(ROOT, "MANIFEST.json")))
kf = json.load(open(os.path.join(ROOT, "known_findings.json")))["findings"]
out = []
out.append("### 10.3 Registered checks (generated from MANIFEST.json)\n")
out.append("| id | engine | level | technique |\n|---|---|---|---|")
for c in man["checks"]:
    out.append("| %s | %s | %s | %s |" % (c["property_id"], c.get("engine", ""), c["level_claimed"]["category"], c.get("technique", "")[:150]))
out.append("\nNot claimed: " + (", ".join("%s (%s)" % (n["property_id"], n["reason"][:80]) for n in man.get("not_applicable", [])) or "none") + "\n")
out.append("### 10.4 Genuine defects found on the unchanged tree (generated from known_findings.json)\n")
fixed = {}
for f in kf:
    if f["status"] == "fixed":
        fixed.setdefault((f["commit"], f["property"]), []).append(f)
out.append("**Repaired (`fix:` commits in /repo; the entries suppress nothing):**\n")
out.append("| commit | property | what failed | signatures |\n|---|---|---|---|")
titles = {}
try:
    for line in subprocess.run(["git", "-C", "/repo", "log", "--format=%h %s"], capture_output=True, text=True).stdout.splitlines():
        h, _, s = line.partition(" ")
        titles[h] = s
except Exception:
    pass
for (commit, prop), fs in sorted(fixed.items(), key=lambda t: (t[0][1], t[0][0])):
    t = titles.get(commit.split("+")[0], fs[0]["line"][:120]).replace("fix: ", "")
    out.append("| %s | %s | %s | %d |" % (commit, prop, t.replace("|", "/"), len(fs)))
out.append("\n**Recorded, not repaired (status open; printed as KNOWN-FINDING):**\n")
out.append("| property | signature | why not repaired |\n|---|---|---|")
for f in kf:
    if f["status"] == "open":
        out.append("| %s | `%s` | %s |" % (f["property"], f["signature"][:140].replace("|", "/"), f.get("why_not_fixed", "")[:200].replace("|", "/")))
res_path = os.path.join(ROOT, "seeded", "RESULTS.json")
if os.path.exists(res_path):
    res = json.load(open(res_path))
    out.append("\n### 10.5 Seeded changes (independent sub-agents; generated from seeded/RESULTS.json)\n")
    out.append("| seeded change | property | what it needs to manifest | caught by | note |\n|---|---|---|---|---|")
    for name in sorted(res):
        r = res[name]
        meta = {}
        mp = os.path.join(ROOT, "seeded", name, "meta.json")
        if os.path.exists(mp):
            meta = json.load(open(mp))
        out.append("| %s | %s | %s | %s | %s |" % (name, r.get("property", name.split("-")[0]), str(meta.get("needs_to_manifest", ""))[:160].replace("|", "/").replace("\n", " "), r.get("caught_by", ""), r.get("note", "").replace("|", "/")))
text = "\n".join(out) + "\n"
p = os.path.join(ROOT, "DESIGN.md")
s = open(p).read()
b, e = "<!-- BEGIN GENERATED -->", "<!-- END GENERATED -->"
if b in s:
    s = s[: s.index(b) + len(b)] + "\n" + text + s[s.index(e):]
else:
    s = s.rstrip("\n") + "\n\n" + b + "\n" + text + e + "\n"
open(p, "w").write(s)
print("DESIGN.md tables regenerated")
