#!/bin/bash
# usage: tools/seeded.sh <seeded-dir-name> [check args...]   e.g. tools/seeded.sh C25-a C25 --filter Q10
# scratch copy of /repo (lib only), apply seeded/<name>/patch.diff, run the demo (must FAIL), run the check via VF_REPO, clean up
name=$1; shift
d=/tmp/wt-seed-$name
rm -rf $d; mkdir -p $d && rsync -a --exclude "*.so" --exclude __pycache__ /repo/lib $d/ || exit 3
( cd $d && patch -p1 -s < /verif/seeded/$name/patch.diff ) || { echo "PATCH FAILED"; rm -rf $d; exit 3; }
( cd $d && PYTHONPATH=$d/lib timeout 600 /venv/bin/python /verif/seeded/$name/demo.py >/dev/shm/demo-$name.out 2>&1; echo "demo exit=$? : $(tail -1 /dev/shm/demo-$name.out | cut -c1-160)" )
if [ $# -gt 0 ]; then
  cd /verif && VF_REPO=$d ./check "$@" --no-evidence 2>&1 | grep -E "signature|^C[0-9]+ tier|harness|HARNESS|KNOWN" | cut -c1-230 | tail -5
fi
rm -rf $d
