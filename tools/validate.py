"""python3-vt tools/validate.py : validate MANIFEST.json and every evidence file against the schemas."""
import glob, json, sys, jsonschema
ms = json.load(open("/root/.vp/MANIFEST.schema.json")); es = json.load(open("/root/.vp/EVIDENCE.schema.json"))
m = json.load(open("/verif/MANIFEST.json")); jsonschema.validate(m, ms)
bad = 0
for c in m["checks"]:
    p = "/verif/" + c["evidence_file"]
    try:
        e = json.load(open(p)); jsonschema.validate(e, es)
        assert e["level"] == c["level_claimed"]["category"], "level mismatch"
    except Exception as ex:
        bad += 1; print("BAD", p, str(ex)[:200])
print("manifest ok; evidence files bad:", bad, "of", len(m["checks"]))
sys.exit(1 if bad else 0)
