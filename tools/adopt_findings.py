"""Run ./check <ID> --all on the current /repo and add every reported signature to known_findings.json as an
OPEN finding (used once per property after the builder's defect reports were reviewed; never run by a check)."""
import json, subprocess, sys
pid = sys.argv[1]; why = sys.argv[2] if len(sys.argv) > 2 else "reported by the builder of this check, reproduced stand-alone on the unchanged code; no small safe patch known"
tier = sys.argv[3] if len(sys.argv) > 3 else "quick"
out = subprocess.run(["./check", pid, "--tier", tier, "--all", "--no-evidence", "--jobs", "8"], cwd="/verif", capture_output=True, text=True).stdout
sigs = []
lines = out.splitlines()
for i, l in enumerate(lines):
    s = l.strip()
    if s.startswith("signature:") or s.startswith("(further) signature:"):
        sig = s.split("signature:", 1)[1].strip()
        det = ""
        if i + 1 < len(lines) and lines[i + 1].strip().startswith("detail:"):
            det = lines[i + 1].strip()[7:].strip()
        sigs.append((sig, det))
p = "/verif/known_findings.json"; d = json.load(open(p))
have = {(f["property"], f["signature"]) for f in d["findings"]}
n = 0
for sig, det in sigs:
    if (pid, sig) in have: continue
    d["findings"].append(dict(property=pid, status="open", signature=sig, where="see signature", repro=(det or sig)[:400], why_not_fixed=why, line="KNOWN-FINDING: property=%s %s" % (pid, sig[:200])))
    have.add((pid, sig)); n += 1
json.dump(d, open(p, "w"), indent=1); open(p, "a").write("\n")
print(pid, "adopted", n, "signatures;", [l for l in lines if l.startswith(pid + " tier")][-1:] )
