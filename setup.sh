#!/bin/bash
# offline setup: nothing is fetched or built; byte-compile check and schema validation only
cd "$(dirname "$0")"
set -e
export PYTHONPATH=/verif
/venv/bin/python - <<'PY'
import compileall, sys
ok = compileall.compile_dir("vf", quiet=1, legacy=False, force=False)
sys.exit(0 if ok else 1)
PY
if command -v python3-vt >/dev/null 2>&1; then
python3-vt - <<'PY'
import json, jsonschema, os
m = json.load(open("MANIFEST.json"))
if os.path.exists("/root/.vp/MANIFEST.schema.json"):
    jsonschema.validate(m, json.load(open("/root/.vp/MANIFEST.schema.json")))
json.load(open("known_findings.json"))
print("setup ok: manifest valid,", len(m["checks"]), "checks")
PY
fi
mkdir -p evidence replays
