import sys, os, time, warnings, collections, sqlite3, itertools
sys.path.insert(0,'/verif/design_probes'); import purepy
from sqlalchemy import create_engine, exc, pool
warnings.simplefilter("ignore")
DB="/dev/shm/c23probe.db"
def fresh():
    if os.path.exists(DB): os.unlink(DB)
    c=sqlite3.connect(DB); c.execute("create table t (x int)"); c.commit(); c.close()
eng=create_engine(f"sqlite:///{DB}", connect_args={"autocommit": False, "timeout":0}, poolclass=pool.NullPool)

class Model:
    """scopes: list of sets (markers) - scope 0 is the root txn; published set; handles: list of dict(kind, level, state)"""
    def __init__(self):
        self.pub=set(); self.scopes=None; self.handles=[]; self.closed=False; self.n=0
    def intx(self): return self.scopes is not None
    def clone_key(self):
        return (tuple(sorted(self.pub)), None if self.scopes is None else tuple(tuple(sorted(s)) for s in self.scopes),
                tuple((h['kind'],h['level'],h['state']) for h in self.handles), self.closed)

def observe(conn_closed, conn):
    o=sqlite3.connect(DB, isolation_level=None, timeout=0)
    pub=set(r[0] for r in o.execute("select x from t")); o.close()
    return pub

OPS=['begin','nested','ins','ccommit','crollback','close','h0.commit','h0.rollback','h0.close','h1.commit','h1.rollback','h1.close','h2.commit','h2.rollback']
def run(hist):
    """returns list of observations per step: (outcome, in_tx, in_nested, pub, inside)"""
    fresh()
    conn=eng.connect(); handles=[]; obs=[]; marker=0
    for op in hist:
        out='ok'
        try:
            if op=='begin': handles.append(conn.begin())
            elif op=='nested': handles.append(conn.begin_nested())
            elif op=='ins':
                marker+=1; conn.exec_driver_sql(f"insert into t values ({marker})")
            elif op=='ccommit': conn.commit()
            elif op=='crollback': conn.rollback()
            elif op=='close': conn.close()
            else:
                h,m=op.split('.'); i=int(h[1])
                if i>=len(handles): out='skip'
                else: getattr(handles[i],m)()
        except Exception as e:
            out=type(e).__name__
        try:
            it=conn.in_transaction(); inn=conn.in_nested_transaction()
        except Exception as e:
            it=inn=type(e).__name__
        pub=observe(None,conn)
        inside=None
        if not conn.closed:
            try:
                # read inside without autobegin side effects? exec_driver_sql autobegins; use raw dbapi
                inside=tuple(sorted(r[0] for r in conn.connection.dbapi_connection.execute("select x from t")))
            except Exception as e:
                inside=type(e).__name__
        obs.append((op,out,it,inn,tuple(sorted(pub)),inside, tuple(h.is_active for h in handles)))
        if out=='skip': break
    try: conn.close()
    except Exception: pass
    return obs
if __name__=='__main__':
    for hist in [
        ('ins','nested','ins','h0.rollback','ccommit'),
        ('begin','begin'),
        ('nested','ins','ccommit','h0.rollback'),
        ('begin','nested','nested','ins','h1.rollback','h2.commit','h0.commit'),
        ('begin','nested','nested','ins','h1.commit','h2.rollback','h0.commit'),
        ('begin','ins','close'),
        ('begin','ins','h0.commit','h0.commit'),
        ('begin','ins','h0.commit','h0.rollback','ins','crollback'),
        ('begin','nested','ins','h0.commit','h1.rollback','h1.commit'),
        ('begin','nested','ins','h0.rollback','h1.commit','ins','ccommit'),
    ]:
        print(hist)
        for o in run(hist): print('   ',o)
    t=time.time(); n=0
    for hist in itertools.product(OPS[:9], repeat=3):
        run(hist); n+=1
    print(n,'histories %.1fs'%(time.time()-t))
