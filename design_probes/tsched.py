"""Prototype engine T on sys.monitoring: M-gil (PY_START/C_RETURN/back-JUMP) and M-ft (LINE)."""
import sys, threading as _th, collections, types, gc, time as _time
mon = sys.monitoring
TOOL = mon.DEBUGGER_ID
E = mon.events

class Deadlock(Exception): pass
class Abort(BaseException): pass

def code_objects_of(module_files):
    out = []
    seen = set()
    def walk(co):
        if co in seen: return
        seen.add(co); out.append(co)
        for c in co.co_consts:
            if isinstance(c, types.CodeType): walk(c)
    for obj in gc.get_objects():
        if isinstance(obj, types.FunctionType) and obj.__code__.co_filename in module_files:
            walk(obj.__code__)
    return out

class Exec:
    """one controlled execution"""
    def __init__(self, prefix, bodies, model):
        self.prefix = list(prefix); self.k = 0
        self.choices = []; self.points = []
        self.model = model
        self.vts = {}
        self.cur = None
        self.aborted = False
        self.deadlock = False
        self.lost_wakeup = False
        self.steps = 0
        self.clock = 0.0
        self.main_sem = _th.Semaphore(0)
        self.timers_fired = 0
        self.events = []
    # ---- clock
    def time(self):
        self.clock += 1.0
        return self.clock
    # ---- scheduling
    def enabled(self):
        return [t for t in sorted(self.vts) if self.vts[t].runnable()]
    def choose(self, me):
        en = self.enabled()
        if not en:
            # fire a timer if any waiter has a deadline
            waiters = [v for v in self.vts.values() if not v.done and v.deadline is not None]
            if waiters:
                w = min(waiters, key=lambda v: (v.deadline, v.tid))
                self.clock = max(self.clock, w.deadline)
                w.timed_out = True
                self.timers_fired += 1
                en = [w.tid]
            elif all(v.done for v in self.vts.values()):
                return None
            else:
                raise Deadlock()
        if me in en:
            en.remove(me); en.insert(0, me)
        if len(en) == 1:
            return en[0]
        if self.k < len(self.prefix):
            c = self.prefix[self.k]
            if c >= len(en): raise RuntimeError("replay divergence")
        else:
            c = 0
        self.k += 1
        self.choices.append(c)
        self.points.append((len(en), me in en))
        return en[c]
    def switch_from(self, vt):
        """vt is the running thread; pick next; block vt until rescheduled"""
        try:
            nxt = self.choose(vt.tid if vt.runnable_self() else None)
        except Deadlock:
            self.deadlock = True; self.aborted = True
            self.main_sem.release()
            raise Abort()
        if nxt is None:
            return
        if nxt != vt.tid:
            self.cur = nxt
            self.vts[nxt].sem.release()
            vt.sem.acquire()
            if self.aborted: raise Abort()

class VT:
    def __init__(self, ex, tid, fn):
        self.ex, self.tid, self.fn = ex, tid, fn
        self.sem = _th.Semaphore(0)
        self.done = False; self.exc = None; self.result = None
        self.cond = None          # blocking predicate
        self.deadline = None; self.timed_out = False
        self.in_cb = False
        self.th = _th.Thread(target=self.run, daemon=True)
    def runnable(self):
        if self.done: return False
        if self.cond is None: return True
        return self.timed_out or self.cond()
    def runnable_self(self):
        return (not self.done) and (self.cond is None or self.timed_out or self.cond())
    def run(self):
        self.sem.acquire()
        if self.ex.aborted: return
        try:
            self.result = self.fn()
        except Abort:
            pass
        except BaseException as e:
            self.exc = e
        finally:
            self.done = True
            ex = self.ex
            if not ex.aborted:
                try:
                    nxt = ex.choose(None)
                except Deadlock:
                    ex.deadlock = True; ex.aborted = True; nxt = None
                if nxt is None: ex.main_sem.release()
                else:
                    ex.cur = nxt; ex.vts[nxt].sem.release()
    def point(self):
        ex = self.ex
        if self.in_cb: return
        ex.steps += 1
        if ex.steps > 50000: ex.aborted = True; ex.main_sem.release()
        if ex.aborted: raise Abort()
        self.in_cb = True
        try:
            ex.switch_from(self)
        finally:
            self.in_cb = False
    def block(self, cond, deadline=None):
        """returns True if condition satisfied, False if timed out"""
        self.cond = cond; self.deadline = deadline; self.timed_out = False
        try:
            while not (cond() or self.timed_out):
                self.ex.switch_from(self)
            return not self.timed_out or cond()
        finally:
            self.cond = None; self.deadline = None

_current = {}   # OS thread ident -> VT
def cur_vt():
    return _current.get(_th.get_ident())

# ---- cooperative primitives
class CoopLock:
    def __init__(self): self.owner = None
    def acquire(self, blocking=True, timeout=-1):
        vt = cur_vt()
        if vt is None:
            self.owner = 'main'; return True
        vt.point()
        if self.owner is not None:
            if not blocking: return False
            vt.block(lambda: self.owner is None)
        self.owner = vt.tid
        return True
    def release(self):
        self.owner = None
    def locked(self): return self.owner is not None
    def __enter__(self): self.acquire(); return True
    def __exit__(self, *a): self.release()

class CoopRLock:
    def __init__(self): self.owner = None; self.count = 0
    def _me(self):
        vt = cur_vt(); return vt.tid if vt else 'main'
    def acquire(self, blocking=True, timeout=-1):
        me = self._me()
        if self.owner == me:
            self.count += 1; return True
        vt = cur_vt()
        if vt is not None:
            vt.point()
            if self.owner is not None:
                if not blocking: return False
                vt.block(lambda: self.owner is None)
        self.owner = me; self.count = 1
        return True
    def release(self):
        self.count -= 1
        if self.count == 0: self.owner = None
    def __enter__(self): self.acquire(); return True
    def __exit__(self, *a): self.release()
    # for Condition
    def _release_save(self):
        st = (self.owner, self.count); self.owner = None; self.count = 0; return st
    def _acquire_restore(self, st):
        vt = cur_vt()
        if self.owner is not None:
            vt.block(lambda: self.owner is None)
        self.owner, self.count = st

class CoopCondition:
    def __init__(self, lock=None):
        self.lock = lock or CoopRLock()
        self.waiters = []
        self.acquire = self.lock.acquire; self.release = self.lock.release
    def __enter__(self): return self.lock.__enter__()
    def __exit__(self, *a): return self.lock.__exit__(*a)
    def wait(self, timeout=None):
        vt = cur_vt()
        token = [False]
        self.waiters.append(token)
        st = self.lock._release_save()
        deadline = None if timeout is None else vt.ex.clock + timeout
        ok = vt.block(lambda: token[0], deadline)
        if not token[0]:
            try: self.waiters.remove(token)
            except ValueError: pass
        self.lock._acquire_restore(st)
        return token[0]
    def notify(self, n=1):
        for tok in self.waiters[:n]:
            tok[0] = True
        del self.waiters[:n]
    def notify_all(self): self.notify(len(self.waiters))

class FakeThreading:
    Lock = CoopLock; RLock = CoopRLock; Condition = CoopCondition
    local = _th.local
    get_ident = staticmethod(_th.get_ident)
    current_thread = staticmethod(_th.current_thread)

# ---- monitoring glue
_active = {'ex': None, 'model': None}
def _cb_point(*a):
    vt = cur_vt()
    if vt is not None and vt.ex is _active['ex']:
        vt.point()
def _cb_jump(code, off, dest):
    if dest < off: _cb_point()
def _cb_call(code, off, callable, arg0): pass

def install(codes, model):
    try: mon.use_tool_id(TOOL, "vf")
    except ValueError: pass
    if model == 'gil':
        mon.register_callback(TOOL, E.PY_START, _cb_point)
        mon.register_callback(TOOL, E.PY_RESUME, _cb_point)
        mon.register_callback(TOOL, E.C_RETURN, _cb_point)
        mon.register_callback(TOOL, E.JUMP, _cb_jump)
        mon.register_callback(TOOL, E.CALL, _cb_call)
        ev = E.PY_START | E.PY_RESUME | E.JUMP | E.CALL
    else:
        mon.register_callback(TOOL, E.LINE, _cb_point)
        ev = E.LINE
    for c in codes:
        mon.set_local_events(TOOL, c, ev)

def run_once(prefix, bodies, setup, model):
    ex = Exec(prefix, bodies, model)
    _active['ex'] = ex
    ctx = setup(ex)
    for i, b in enumerate(bodies):
        vt = VT(ex, i, (lambda b=b, i=i: b(ctx, i)))
        ex.vts[i] = vt
    def boot(vt):
        orig = vt.run
        def r():
            _current[_th.get_ident()] = vt
            try: orig()
            finally: _current.pop(_th.get_ident(), None)
        vt.th = _th.Thread(target=r, daemon=True)
    for vt in ex.vts.values(): boot(vt); vt.th.start()
    first = ex.choose(None)
    ex.cur = first
    ex.vts[first].sem.release()
    ex.main_sem.acquire()
    if ex.aborted:
        for vt in ex.vts.values(): vt.sem.release()
    for vt in ex.vts.values(): vt.th.join(2)
    _active['ex'] = None
    return ex, ctx

def explore(bodies, setup, check, bound, model, limit=None):
    n = 0; stack = [[]]; outcomes = collections.Counter(); viol = []
    maxpts = 0
    while stack:
        prefix = stack.pop()
        ex, ctx = run_once(prefix, bodies, setup, model)
        n += 1
        res = check(ex, ctx)
        outcomes[res[0]] += 1
        if res[1]: viol.append((prefix, res))
        maxpts = max(maxpts, len(ex.points))
        cost = 0; costs = []
        for (nen, run_en), ch in zip(ex.points, ex.choices):
            costs.append(cost)
            if run_en and ch != 0: cost += 1
        for i in range(len(prefix), len(ex.points)):
            nen, run_en = ex.points[i]
            c = costs[i] + (1 if run_en else 0)
            if c > bound: continue
            for alt in range(1, nen):
                stack.append(ex.choices[:i] + [alt])
        if limit and n >= limit: break
    return n, outcomes, viol, maxpts
