import sys, time, warnings, collections, itertools
sys.path.insert(0,'/verif/design_probes'); import purepy
from sqlalchemy import create_engine, inspect, event, select
from sqlalchemy.orm import DeclarativeBase, Mapped, mapped_column, Session, make_transient, make_transient_to_detached
from sqlalchemy.pool import StaticPool
warnings.simplefilter("ignore")
class Base(DeclarativeBase): pass
class P(Base):
    __tablename__='p'
    id: Mapped[int]=mapped_column(primary_key=True)
    name: Mapped[str|None]
e=create_engine("sqlite://", poolclass=StaticPool, connect_args={"autocommit": False})
Base.metadata.create_all(e)
EVENTS=['transient_to_pending','pending_to_transient','pending_to_persistent','persistent_to_transient','persistent_to_deleted','deleted_to_persistent','deleted_to_detached','persistent_to_detached','detached_to_persistent','loaded_as_persistent']
def st(o):
    i=inspect(o); f=[n for n in ('transient','pending','persistent','deleted','detached') if getattr(i,n)]
    return '+'.join(f) if len(f)!=1 else f[0]
OPS=['add','delete','expunge','flush','commit','rollback','close','nested','sp_rollback','set','make_transient','query','mttd']
def run(hist, eoc=True):
    with e.begin() as c: c.exec_driver_sql("delete from p")
    s=Session(e, expire_on_commit=eoc); log=[]
    for ev in EVENTS:
        event.listen(s, ev, (lambda ev: (lambda sess, obj: log.append(ev)))(ev))
    p=P(id=1,name='a'); sps=[]; trace=[]
    for op in hist:
        before=st(p); log.clear(); out='ok'
        try:
            if op=='add': s.add(p)
            elif op=='delete': s.delete(p)
            elif op=='expunge': s.expunge(p)
            elif op=='flush': s.flush()
            elif op=='commit': s.commit()
            elif op=='rollback': s.rollback()
            elif op=='close': s.close()
            elif op=='nested': sps.append(s.begin_nested())
            elif op=='sp_rollback':
                if not sps: out='skip'
                else: sps.pop().rollback()
            elif op=='set': p.name='b' if p.name!='b' else 'c'
            elif op=='make_transient': make_transient(p)
            elif op=='mttd': make_transient_to_detached(p)
            elif op=='query': s.scalars(select(P)).all()
        except Exception as ex:
            out=type(ex).__name__
        trace.append((op,out,before,st(p),tuple(log)))
        if out=='skip': break
    s.close()
    return trace
edges=collections.Counter(); n=0; t=time.time()
for eoc in (True,False):
  for L in (1,2,3,4):
    for hist in itertools.product(OPS, repeat=L):
        tr=run(hist,eoc); n+=1
        if tr[-1][1]=='skip': continue
        op,out,b,a,evs=tr[-1]
        edges[(b,a,evs, eoc if (b=='deleted' and op=='commit') else None)]+=1
print(n,'histories %.1fs'%(time.time()-t))
for k,v in sorted(edges.items(), key=lambda kv: str(kv[0])): print(k,v)
