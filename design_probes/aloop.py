import sys, asyncio, sqlite3, heapq, gc, time as _t
sys.path.insert(0,'/verif/design_probes')
import purepy
from asyncio import events
from sqlalchemy.ext.asyncio import create_async_engine
from sqlalchemy import text, pool

class VLoop(asyncio.BaseEventLoop):
    def __init__(self):
        super().__init__(); self._vt = 0.0; self.exc = []
        self.set_exception_handler(lambda loop, ctx: self.exc.append(ctx))
    def time(self): return self._vt
    def _process_events(self, ev): pass
    def _write_to_self(self): pass
    def drive(self, task, on_suspend=None, max_steps=100000):
        events._set_running_loop(self)
        try:
            steps = 0; was_waiting = None
            while not task.done() or self._ready:
                steps += 1
                if steps > max_steps: raise RuntimeError("horizon")
                if self._ready:
                    h = self._ready.popleft()
                    if not h._cancelled: h._run()
                elif self._scheduled:
                    th = heapq.heappop(self._scheduled)
                    th._scheduled = False
                    self._vt = max(self._vt, th._when)
                    if not th._cancelled: self._ready.append(th)
                else:
                    raise RuntimeError("deadlock: task pending, nothing scheduled")
                w = task._fut_waiter
                if w is not None and w is not was_waiting and on_suspend:
                    on_suspend(task)
                was_waiting = w
        finally:
            events._set_running_loop(None)

LEDGER = []
class FCursor:
    def __init__(self, conn): self.c = conn; self.cur = conn.raw.cursor()
    async def _y(self):
        f = asyncio.get_running_loop().create_future()
        asyncio.get_running_loop().call_soon(f.set_result, None)
        await f
    async def execute(self, sql, params=()):
        self.cur.execute(sql, params); await self._y(); return self
    async def executemany(self, sql, params):
        self.cur.executemany(sql, params); await self._y(); return self
    async def fetchall(self): r = self.cur.fetchall(); await self._y(); return r
    async def fetchone(self): r = self.cur.fetchone(); await self._y(); return r
    async def fetchmany(self, size=None): r = self.cur.fetchmany(size or self.cur.arraysize); await self._y(); return r
    async def close(self): self.cur.close(); await self._y()
    @property
    def description(self): return self.cur.description
    @property
    def rowcount(self): return self.cur.rowcount
    @property
    def lastrowid(self): return self.cur.lastrowid
    arraysize = 1
    async def __aenter__(self): await self._y(); return self
    async def __aexit__(self, *a): await self.close()

class FConn:
    def __init__(self, path):
        self.raw = sqlite3.connect(path, autocommit=False, check_same_thread=False)
        self.open = True; self._connection = True; LEDGER.append(self); self.id = len(LEDGER)
    async def _y(self):
        f = asyncio.get_running_loop().create_future()
        asyncio.get_running_loop().call_soon(f.set_result, None)
        await f
    def cursor(self): return FCursor(self)
    async def commit(self): self.raw.commit(); await self._y()
    async def rollback(self): self.raw.rollback(); await self._y()
    async def close(self): self.raw.close(); self.open = False; self._connection = None; await self._y()
    def stop(self): self.raw.close(); self.open = False; self._connection = None
    async def create_function(self, *a, **k): self.raw.create_function(*a, **k); await self._y()
    @property
    def isolation_level(self): return self.raw.isolation_level
    @property
    def in_transaction(self): return self.raw.in_transaction

PATH = "/dev/shm/aloop_probe.db"
async def creator(*a, **k):
    c = FConn(PATH)
    f = asyncio.get_running_loop().create_future(); asyncio.get_running_loop().call_soon(f.set_result, None); await f
    return c

async def program(engine, log):
    async with engine.connect() as conn:
        await conn.execute(text("insert into t values (1)"))
        r = await conn.execute(text("select count(*) from t"))
        log.append(r.scalar())
        await conn.commit()

def fresh():
    import os
    if os.path.exists(PATH): os.unlink(PATH)
    c = sqlite3.connect(PATH); c.execute("create table t (x int)"); c.commit(); c.close()
    LEDGER.clear()

def run(cancel_at=None):
    fresh()
    loop = VLoop()
    events._set_running_loop(loop)
    engine = create_async_engine("sqlite+aiosqlite://", async_creator=creator, poolclass=pool.AsyncAdaptedQueuePool, pool_size=1, max_overflow=0)
    events._set_running_loop(None)
    log = []; n = [0]
    def on_suspend(task):
        n[0] += 1
        if cancel_at is not None and n[0] == cancel_at: task.cancel()
    events._set_running_loop(loop)
    task = loop.create_task(program(engine, log))
    events._set_running_loop(None)
    loop.drive(task, on_suspend)
    res = 'cancelled' if task.cancelled() else ('exc:%r' % task.exception() if task.exception() else 'ok')
    # post-condition
    p = engine.sync_engine.pool
    co = p.checkedout()
    idle_in_tx = [c.id for c in LEDGER if c.open and c.in_transaction]
    obs = sqlite3.connect(PATH); rows = obs.execute("select count(*) from t").fetchone()[0]; obs.close()
    # follow-up
    events._set_running_loop(loop)
    t2 = loop.create_task(program(engine, []))
    events._set_running_loop(None)
    loop.drive(t2)
    follow = 'ok' if not t2.cancelled() and t2.exception() is None else repr(t2.exception())
    gc.collect()
    return n[0], res, co, idle_in_tx, rows, follow, len(loop.exc), len(LEDGER)

t = _t.time()
n, *rest = run()
print('no cancel: suspensions', n, rest)
for k in range(1, n + 1):
    print(k, run(k)[1:])
print('time %.2f' % (_t.time() - t))
