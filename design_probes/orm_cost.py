import time
from sqlalchemy import create_engine, ForeignKey, select, event
from sqlalchemy.orm import DeclarativeBase, Mapped, mapped_column, relationship, Session
from sqlalchemy.pool import StaticPool
class Base(DeclarativeBase): pass
class P(Base):
    __tablename__='p'
    id: Mapped[int]=mapped_column(primary_key=True)
    name: Mapped[str|None]
    cs = relationship("C", back_populates="p", cascade="all, delete-orphan")
class C(Base):
    __tablename__='c'
    id: Mapped[int]=mapped_column(primary_key=True)
    pid = mapped_column(ForeignKey('p.id'))
    p = relationship("P", back_populates="cs")
e=create_engine("sqlite://", poolclass=StaticPool, connect_args={"autocommit": False})
Base.metadata.create_all(e)
N=300
t=time.time()
for i in range(N):
    with e.begin() as c:
        c.exec_driver_sql("delete from c"); c.exec_driver_sql("delete from p")
    s=Session(e)
    p=P(id=1,name='a'); c1=C(id=1); c2=C(id=2)
    s.add(p); p.cs.append(c1); s.flush(); p.cs.append(c2); s.commit()
    p.cs.remove(c1); s.begin_nested(); p.name='b'; s.flush(); s.rollback()
    s.close()
print((time.time()-t)/N*1000,'ms per 9-op history')
