import sys
sys.argv_backup = sys.argv[:]
mut = sys.argv.pop(4)
src = open('/verif/design_probes/t_pool.py').read()
# inject mutation after imports
if mut == 'nolock':
    inj = '''
def _inc_overflow(self):
    if self._max_overflow == -1:
        self._overflow += 1
        return True
    if self._overflow < self._max_overflow:
        self._overflow += 1
        return True
    else:
        return False
impl.QueuePool._inc_overflow = _inc_overflow
files = files  # code object of the patched fn lives in this file; add it
'''
    src = src.replace("codes = code_objects_of(files)", inj + "codes = code_objects_of(files) + [_inc_overflow.__code__]")
elif mut == 'ifwait':
    import inspect
    inj = '''
import textwrap, inspect
s = inspect.getsource(q.Queue.get)
s = textwrap.dedent(s).replace("while self._empty():\\n                    remaining", "if self._empty():\\n                    remaining").replace("""                endtime = _time() + timeout
                while self._empty():""", """                endtime = _time() + timeout
                if self._empty():""")
ns = {}
exec(compile(s, q.__file__, 'exec'), q.__dict__, ns)
q.Queue.get = ns['get']
'''
    src = src.replace("codes = code_objects_of(files)", inj + "codes = code_objects_of(files) + [ns['get'].__code__]")

src = src.replace("if scen != 'three' else", "if scen not in ('three','ov3') else")
exec(compile(src, 't_pool_mut', 'exec'))
