import sys, time, gc
sys.path.insert(0, '/verif/design_probes')
import purepy
import tsched
from tsched import *
import sqlalchemy.util.queue as q
import sqlalchemy.pool.impl as impl
import sqlalchemy.pool.base as pbase
import sqlalchemy.event.attr as attr
from sqlalchemy import pool, exc

model = sys.argv[1]; bound = int(sys.argv[2]); scen = sys.argv[3]
files = {q.__file__, impl.__file__, pbase.__file__}
codes = code_objects_of(files)
install(codes, model)

class FakeTime:
    def __init__(self, ex): self.ex = ex
    def time(self): return self.ex.time()

class Conn:
    n = 0
    def __init__(self, ledger):
        Conn.n += 1; self.id = Conn.n; self.open = True; ledger.append(self)
    def close(self): self.open = False
    def rollback(self): pass
    def commit(self): pass
    def cursor(self): raise NotImplementedError

def setup(ex):
    q.threading = FakeThreading; impl.threading = FakeThreading; attr.threading = FakeThreading
    ft = FakeTime(ex)
    q._time = ft.time; pbase.time = ft
    ledger = []
    Conn.n = 0
    size, ov = (1, 1) if scen in ('ov','held') else (1, 0)
    p = pool.QueuePool(lambda: Conn(ledger), pool_size=size, max_overflow=ov, timeout=10)
    ctx = dict(p=p, ledger=ledger, held={}, viol=[], size=size, ov=ov)
    if scen.startswith('held'):
        ctx['mainheld'] = p.connect()
    return ctx

def inv(ctx):
    openc = sum(1 for c in ctx['ledger'] if c.open)
    if openc > ctx['size'] + ctx['ov']: ctx['viol'].append(('I2', openc))
    ids = [c.id for c in ctx['held'].values()]
    if len(ids) != len(set(ids)): ctx['viol'].append(('I1', ids))

def body(ctx, i):
    p = ctx['p']
    for rep in range(1 if scen != 'twice' else 2):
        try:
            f = p.connect()
        except exc.TimeoutError:
            ctx['viol'].append(('timeout', i)); return
        ctx['held'][i] = f.dbapi_connection; inv(ctx)
        del ctx['held'][i]
        f.close(); inv(ctx)

def check(ex, ctx):
    p = ctx['p']
    v = list(ctx['viol'])
    if ex.deadlock: v.append('deadlock')
    for vt in ex.vts.values():
        if vt.exc is not None: v.append(('exc', repr(vt.exc)))
    extra = 1 if 'mainheld' in ctx else 0
    if p.checkedout() != extra: v.append(('checkedout', p.checkedout()))
    openc = sum(1 for c in ctx['ledger'] if c.open)
    if openc != p.checkedin() + extra: v.append(('open!=idle', openc, p.checkedin()))
    return ((len(ctx['ledger']), ex.timers_fired, tuple(map(str, v))), v)

gc.disable()
t = time.time()
n, out, viol, maxpts = explore([body, body] if scen != 'three' else [body, body, body], setup, check, bound, model)
print(model, 'bound', bound, scen, 'execs', n, 'maxpoints', maxpts, 'time %.1f' % (time.time() - t))
for k, v in out.items(): print('  outcome', k, v)
print('violations', len(viol), viol[:2])
