import sys, time, itertools, warnings
sys.path.insert(0,'/verif/design_probes'); import purepy
from sqlalchemy import *
from sqlalchemy import event
warnings.simplefilter("ignore")
m=MetaData()
a=Table('a',m,Column('id',Integer,primary_key=True),Column('x',Integer),Column('s',String))
b=Table('b',m,Column('id',Integer,primary_key=True),Column('aid',ForeignKey('a.id')),Column('y',Integer))
def family():
    F=[]
    for lit in (1,2):
      for op in ('eq','lt'):
        for lim in (None,1,2):
          for outer in (False,True):
            for dist in (False,True):
              for lbl in ('q','r'):
                crit = (a.c.x==lit) if op=='eq' else (a.c.x<lit)
                s=select(a.c.id, b.c.y.label(lbl)).select_from(a.join(b, isouter=outer)).where(crit).order_by(a.c.id, b.c.id)
                if lim is not None: s=s.limit(lim)
                if dist: s=s.distinct()
                F.append((('join',lit,op,lim,outer,dist,lbl),s))
    for lit in (1,2):
      for vals in ([1],[1,2],[]):
        sub=select(b.c.aid).where(b.c.y>lit).scalar_subquery()
        F.append((('in',lit,tuple(vals)), select(a.c.id).where(a.c.x.in_(vals), a.c.id.in_(sub)).order_by(a.c.id)))
        c=select(a.c.id,a.c.x).where(a.c.x>=lit).cte('c')
        F.append((('cte',lit,tuple(vals)), select(c.c.id).where(c.c.x.not_in(vals)).order_by(c.c.id)))
    return F
def mk(cache):
    e=create_engine("sqlite://", **({} if cache else {"query_cache_size":0}))
    m.create_all(e)
    with e.begin() as c:
        c.execute(a.insert(),[dict(id=i,x=i%3,s=str(i)) for i in range(1,6)])
        c.execute(b.insert(),[dict(id=i,aid=(i%5)+1,y=i%4) for i in range(1,9)])
    log=[]
    @event.listens_for(e,"before_cursor_execute")
    def bce(conn,cur,stmt,params,ctx,many): log.append((stmt,params))
    return e,log
F=family(); print(len(F),'statements')
e0,log0=mk(False)
base={}
with e0.connect() as c:
    for k,s in F:
        log0.clear(); rows=c.execute(s).all(); base[k]=(tuple(log0),tuple(rows))
t=time.time(); n=0; bad=0; keyeq=0
keys={k:s._generate_cache_key() for k,s in F}
for (k1,s1),(k2,s2) in itertools.permutations(F,2):
    if keys[k1]==keys[k2]:
        keyeq+=1
        if str(s1.compile(e0))!=str(s2.compile(e0)): bad+=1; print('KEY-EQ but SQL differs',k1,k2)
# histories of length 2 on a shared cache: fresh engine per first statement (cache state = {s1})
for (k1,s1) in F:
    e,log=mk(True)
    with e.connect() as c:
        c.execute(s1).all()
        for (k2,s2) in F:
            log.clear(); rows=c.execute(s2).all(); n+=1
            if (tuple(log),tuple(rows))!=base[k2]:
                bad+=1
                if bad<4: print('DIFF',k1,k2)
    e.dispose()
print('pairs',n,'key-equal ordered pairs',keyeq,'bad',bad,'time %.1f'%(time.time()-t))
