import sys, time, itertools
sys.path.insert(0,'/verif/design_probes'); import purepy
from sqlalchemy import *
from sqlalchemy.sql import operators, elements
from sqlalchemy.dialects import sqlite, postgresql, mysql, mssql, oracle
m=MetaData(); t=Table('t',m,Column('id',Integer,primary_key=True),Column('a',Integer),Column('b',Integer),Column('c',Integer))
G=elements.Grouping
def build(ast, ref):
    k=ast[0]
    if k=='col': return t.c[ast[1]]
    if k=='lit': return literal(ast[1], type_=Integer)
    ch=[build(x,ref) for x in ast[1:]]
    if ref: ch=[G(x) for x in ch]
    if k=='add': return ch[0]+ch[1]
    if k=='sub': return ch[0]-ch[1]
    if k=='mul': return ch[0]*ch[1]
    if k=='neg': return -ch[0]
    if k=='eq': return ch[0]==ch[1]
    if k=='lt': return ch[0]<ch[1]
    if k=='and': return and_(ch[0],ch[1])
    if k=='or': return or_(ch[0],ch[1])
    if k=='not': return (elements.UnaryExpression(ch[0],operator=operators.inv) if ref else not_(ch[0]))
    if k=='isnull': return ch[0].is_(None)
    if k=='between': return ch[0].between(ch[1],ch[2])
NUM=['add','sub','mul']; 
def trees(n, typ, leaves):
    # typ: 'n' numeric, 'b' boolean
    if n==0:
        if typ=='n':
            for l in leaves: yield l
        return
    if typ=='n':
        for op in NUM:
            for i in range(n):
                for l in trees(i,'n',leaves):
                    for r in trees(n-1-i,'n',leaves): yield (op,l,r)
        for x in trees(n-1,'n',leaves): yield ('neg',x)
    else:
        for op in ('eq','lt'):
            for i in range(n):
                for l in trees(i,'n',leaves):
                    for r in trees(n-1-i,'n',leaves): yield (op,l,r)
        for x in trees(n-1,'n',leaves): yield ('isnull',x)
        for x in trees(n-1,'b',leaves): yield ('not',x)
        for op in ('and','or'):
            for i in range(n):
                for l in trees(i,'b',leaves):
                    for r in trees(n-1-i,'b',leaves): yield (op,l,r)
leaves=[('col','a'),('col','b'),('lit',None),('lit',-2)]
e=create_engine("sqlite://")
m.create_all(e)
vals=[None,-2,0,1,3]
with e.begin() as c:
    c.execute(t.insert(),[dict(a=a,b=b,c=cc) for a in vals for b in vals for cc in (None,1)])
tot=0; bad=0; t0=time.time()
with e.connect() as c:
    for n in (1,2,3):
        batch=[]
        for typ in ('n','b'):
            for ast in trees(n,typ,leaves):
                batch.append(ast)
        print('n',n,'trees',len(batch))
        for i in range(0,len(batch),40):
            chunk=batch[i:i+40]
            cols=[]
            for ast in chunk:
                cols.append(build(ast,False).label(None)); cols.append(build(ast,True).label(None))
            rows=c.execute(select(*cols)).all()
            for r in rows:
                for j,ast in enumerate(chunk):
                    tot+=1
                    if r[2*j]!=r[2*j+1] and not (r[2*j] is None and r[2*j+1] is None):
                        bad+=1
                        if bad<5: print('DIFF',ast,r[2*j],r[2*j+1], str(build(ast,False).compile(dialect=sqlite.dialect())))
print('comparisons',tot,'bad',bad,'time %.1f'%(time.time()-t0))
x=build(('not',('eq',('col','a'),('col','b'))),False); y=build(('not',('eq',('col','a'),('col','b'))),True)
for d in (sqlite,postgresql,mysql,mssql,oracle):
    print(d.__name__.split('.')[-1], '|', x.compile(dialect=d.dialect()), '|', y.compile(dialect=d.dialect()))
z=build(('sub',('col','a'),('sub',('col','b'),('col','c'))),False); print(z.compile(dialect=postgresql.dialect()), '||', build(('sub',('col','a'),('sub',('col','b'),('col','c'))),True).compile(dialect=postgresql.dialect()))
