import sys, importlib.abc, importlib.util, os
CY = {"sqlalchemy.util._collections_cy","sqlalchemy.util._immutabledict_cy","sqlalchemy.engine._processors_cy",
      "sqlalchemy.engine._result_cy","sqlalchemy.engine._row_cy","sqlalchemy.engine._util_cy","sqlalchemy.sql._util_cy"}
class F(importlib.abc.MetaPathFinder):
    def find_spec(self, name, path, target=None):
        if name in CY and path:
            for p in path:
                f=os.path.join(p, name.rsplit('.',1)[1]+'.py')
                if os.path.exists(f):
                    return importlib.util.spec_from_file_location(name, f)
        return None
sys.meta_path.insert(0,F())
